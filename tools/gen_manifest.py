#!/usr/bin/env python3
"""Generates /verif/MANIFEST.json from the table below + units/*/unit.toml (so the file stays valid and current)."""
import json, os, sys, tomllib
ROOT = os.path.dirname(os.path.dirname(os.path.abspath(__file__)))
sys.path.insert(0, ROOT)
from manifest_src import CLAIMED, NOT_APPLICABLE, NOTES

def units_of(prop):
    out = []
    d = os.path.join(ROOT, "units")
    for n in sorted(os.listdir(d)):
        p = os.path.join(d, n, "unit.toml")
        if os.path.exists(p):
            u = tomllib.load(open(p, "rb"))
            if prop in u.get("property", []) and u.get("enabled", True):
                out.append((n, u))
    return out

checks = []
for pid, c in sorted(CLAIMED.items()):
    us = units_of(pid)
    if not us:
        raise SystemExit(f"{pid} claimed but no unit serves it")
    checks.append({
        "property_id": pid,
        "quick_cmd": f"./check {pid} --tier quick",
        "thorough_cmd": f"./check {pid} --tier thorough",
        "evidence_file": f"/verif/evidence/{pid}.json",
        "replay_cmd_template": f"./check {pid} --replay {{path}}",
        "engine": "contracts",
        "level_claimed": {"category": c.get("category", "proof"), "text": c["text"], "design_ref": c.get("design_ref", "DESIGN.md §5")},
        "level_note": c["note"] + " Units: " + ", ".join(f"{n} ({u['backend']})" for n, u in us) + ".",
        "technique": c["technique"],
    })
ids = {c["property_id"] for c in checks}
na = [{"property_id": k, "reason": v} for k, v in sorted(NOT_APPLICABLE.items()) if k not in ids]
allp = [json.loads(l)["id"] for l in open(os.path.join(ROOT, "properties.jsonl"))]
missing = [p for p in allp if p not in ids and p not in NOT_APPLICABLE]
if missing:
    raise SystemExit(f"properties neither claimed nor not_applicable: {missing}")
m = {
    "version": 1,
    "setup_cmd": "cd /verif/tools/vx && cargo build --release --offline && cd /verif && ./check --selftest",
    "hooks": {
        "guard": "specy_rooc_verif",
        "enable": "none needed: no hook is compiled into /repo; Verus text is extracted from the working tree on every run and Kani harness modules are appended to a scratch copy under /var/tmp (removed at the end of the run)",
        "baseline_off_cmd": "cd /repo/packages/rooc && cargo test --workspace --no-fail-fast --offline",
        "source_commits": [],
        "add_only": True,
    },
    "engines": [{"name": "contracts", "path": "/verif/check", "serves_properties": sorted(ids),
                 "kind_free_text": "contract-based deductive verification: contracts woven (tools/vx, syn) into functions extracted mechanically from /repo on every run, discharged by Verus 0.2026.09.13; Kani 0.68 for machine-integer / finite-table obligations and labelled bounded stand-ins"}],
    "checks": checks,
    "not_applicable": na,
    "notes": NOTES,
}
json.dump(m, open(os.path.join(ROOT, "MANIFEST.json"), "w"), indent=1)
print("MANIFEST.json:", len(checks), "claimed,", len(na), "not applicable")
