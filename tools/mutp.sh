#!/bin/bash
# developer aid (never touches /repo): like mut2.sh but runs the whole PROPERTY check.  tools/mutp.sh <repo-rel-file> <sed-expr> <Cnn>
S=$(mktemp -d /var/tmp/mutrepo.XXXXXX)
trap 'rm -rf "$S"' EXIT INT TERM
mkdir -p $S/packages/rooc && rsync -a --exclude target /repo/packages/rooc/ $S/packages/rooc/
f=$S/$1; cp "$f" "$f.orig"; sed -i "$2" "$f"
if cmp -s "$f" "$f.orig"; then echo "MUTATION DID NOT APPLY"; fi; rm -f "$f.orig"
mkdir -p $S/verifout
(cd /verif && VERIF_REPO=$S VERIF_WORK=$S/work VERIF_OUT=$S/verifout timeout ${MUT_TIMEOUT:-900} ./check "$3" 2>&1 | grep -E "VIOLATION|KNOWN|ERROR|obligations=|  obligation" | head -${4:-6}); echo "exit=$?"
