#!/usr/bin/env python3
"""developer aid: MANIFEST.json and every evidence file against their schemas; evidence level == claimed category;
exploration evidence carries evaluations / distinct_nontrivial / rule.  Run with python3-vt (jsonschema lives in the tooling venv)."""
import json, sys
import jsonschema
m = json.load(open('/verif/MANIFEST.json'))
jsonschema.validate(m, json.load(open('/root/.vp/MANIFEST.schema.json')))
sch = json.load(open('/root/.vp/EVIDENCE.schema.json'))
bad = 0
for c in m['checks']:
    pid, cat = c['property_id'], c['level_claimed']['category']
    e = json.load(open(f'/verif/evidence/{pid}.json'))
    jsonschema.validate(e, sch)
    ok = e['level'] == cat and (cat != 'exploration' or all(k in e['coverage'] for k in ('evaluations', 'distinct_nontrivial', 'rule')))
    if not ok:
        bad += 1
        print('MISMATCH', pid, 'claimed', cat, 'evidence', e['level'])
print('ok' if not bad else f'{bad} mismatches')
sys.exit(1 if bad else 0)
