#!/bin/bash
# developer aid (never touches /repo): copy /repo's sources to a scratch tree, apply a sed mutation there, run a unit
# against the scratch tree (VERIF_REPO), remove the scratch tree.   tools/mut2.sh <repo-rel-file> <sed-expr> <unit> [lines]
S=$(mktemp -d /var/tmp/mutrepo.XXXXXX)
trap 'rm -rf "$S"' EXIT INT TERM
mkdir -p $S/packages/rooc && rsync -a --exclude target /repo/packages/rooc/ $S/packages/rooc/
f=$S/$1
cp "$f" "$f.orig"
sed -i "$2" "$f"
if cmp -s "$f" "$f.orig"; then echo "MUTATION DID NOT APPLY"; fi
rm -f "$f.orig"
(cd /verif && VERIF_REPO=$S VERIF_WORK=$S/work timeout ${MUT_TIMEOUT:-600} ./check --unit "$3" 2>&1 | grep -E "FAIL|FAILURE|ERROR|canary" | head -${4:-6})
