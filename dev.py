import sys; sys.path.insert(0,'/verif')
from vlib import runner as R
R.ensure_vx()
u=R.load_units()[sys.argv[1]]
try:
    r=R.run_verus(u, '/verif/work/dev', canary=('--canary' in sys.argv))
    print('rc',r['rc'], 'verified',r['verified'], 'errors',r['n_errors'], 'wall %.1f'%r['wall'])
    for e in r['errors']: print(' FAIL', e['fn'], e['line'], e['msg'], '|', e['clause'][:150])
    if '-v' in sys.argv: print(r['stderr'][-6000:])
    for f in sorted(r['functions'], key=lambda f:-f['us'])[:8]: print('  ',f['fn'], f['success'], f['us']//1000,'ms')
except R.Infra as e:
    print("INFRA", e)
