# Source table for MANIFEST.json (tools/gen_manifest.py).  One entry per claimed property.
NOTES = ("Technique family: contract-based deductive verification of the real code. Exit 0 = every obligation generated from /repo's "
         "current source was discharged; exit 1 = an obligation failed (VIOLATION line, replay file names the obligation and carries the "
         "verifier output; Kani failures carry the concrete counterexample); exit 2 = extraction lost / tool limit (never an alarm).")

PENDING = "check not built yet in this revision of /verif (planned in DESIGN.md §5); not claimed until its unit verifies on the unchanged tree"

CLAIMED = {
    "C07": {
        "text": "Every interval operation the bound analyser is built from (add, sub, neg, scale, div_by, abs, intersection with tolerance, NaN-free sums, "
                "declared-domain boxes, required range of a comparison) is proved, for all extended-real inputs, to enclose the exact real result and never to produce NaN; "
                "on top of these, BoundsAnalyzer::bounds_of is proved by structural induction to return a NaN-free range that contains the value of the expression at EVERY assignment inside the variable box "
                "(every arm: Number, Variable, Abs, Min and Max over any number of operands, all binary operators incl. the constant-scale and constant-division forms, negation, every logic connective). "
                "The backward step is proved too (U07.back): tighten_variable, tighten_expression (every arm: variable, abs, min, max, + - , constant * and /, negation) and tighten_constraint_expression never cut off a point of the current box "
                "at which the expression takes a value in the required range, and record infeasibility only when no such point exists; because this holds for every box it holds at every step, so stopping at the step limit is covered. "
                "The affine-row step tighten_affine_form (term ranges, prefix / suffix sums, (required - others) / c per variable) is proved under the same statement (U07.aff), given a well-formed affine form. "
                "That form is itself under contract (U07.form): AffineForm::from_exp / from_constraint return a form whose value IS the expression's value (lhs - rhs for a constraint) wherever that is defined, with finite non-zero coefficients only, "
                "and AffineForm::merge adds multiplier x other term by term over the insertion-ordered map (insert / update / removal of cancelling coefficients); AffineForm::scale (retain with a mutating closure, read as a position loop by rule R53) multiplies every coefficient and the constant and drops the coefficients that become zero (U07.scale). "
                "The propagation loop itself (a statement slice of propagate_affine_constraints: queue, requeueing through the dependency table, step limit, stop on infeasibility) is proved sound for EVERY schedule (U07.loop): an assignment inside the starting box "
                "at which every constraint's comparison holds stays inside the box, given forms related to their constraints as from_constraint guarantees; index errors are panics (rule R54) about which nothing is claimed. "
                "The two ends are under contract as well (U07.pub): from_domain builds a box that contains every assignment inside the declared domains, and apply_to_domain publishes for every variable a domain that contains every value of its declared domain lying in the inferred range "
                "(integer ends rounded within the tolerance and cast with saturation must bracket every integer of the interval; reals copied; non-negative reals clipped at 0), leaving the key set unchanged. "
                "Before the lowering, the ranges the domains cannot carry are dropped (U07.reset, slices of Linearizer::linearize and Linearizer::new_from with reset_to_declared: whatever names apply_to_domain hands back, resetting a variable to the range of its published domain entry keeps the box sound for every assignment inside the published domains; apply_to_domain also keeps every published range well-formed). "
                "The forms handed to the loop are built by mapping from_constraint over the constraints in order (U07.pre, a statement slice), and a tiling guard keeps every other top-level statement of propagate_affine_constraints listed. "
                "NOT decided deductively: the glue (analyze_with_options; the dependency table and the initial queue, which decide which constraints are revisited but not what is derived), and everything that depends on floating-point rounding (floats are exact reals in the proofs): these are covered only by a BOUNDED search over "
                "the whole real analyser (19 systems x 3 domains x 3 step limits). That search exposes one KNOWN FINDING (recorded, not repaired): real bounds inexact in floating point are published without outward rounding. "
                "Proof level because the statement is a for-all over reals and infinities that no grid of tests covers.",
        "note": "Trusted: prelude/f64_layer.rs (f64 treated as exact extended reals, IEEE special-value tables). Rounding error of finite arithmetic is out of reach and said so.",
        "technique": "Verus contracts (requires/ensures + ghost lemmas, structural induction for bounds_of) woven into functions extracted from bounds.rs on every run; bounded executable-postcondition search for the assumed arms",
        "design_ref": "DESIGN.md §5 C07",
    },
}

CLAIMED["C14"] = {
    "text": "One simplex step from ANY well-formed finite tableau is proved (Verus, unbounded): Tableau::pivot keeps exactly the solution set of the equation system, "
            "makes the entering column the unit column e_t and keeps the other basic unit columns, keeps c.x - value constant on the solution set, updates basis and dimensions; "
            "step_inner reports Finished only without an improving column, Unbounded only with a genuine witness column, and a Pivot only on an eligible (entering, leaving) pair; "
            "ghost lemmas derive monotonicity of the value and feasibility up to the ratio test's tolerance; the six tolerance predicates have their exact meaning and form a consistent order. "
            "Because the contract quantifies over every tableau it covers every prefix of every pivot sequence. The selection functions are proved as well, for every tableau size (U14.ratio; their lazy iterator chains are read through rules R37, R51, R60, R61): "
            "is_optimal is the tolerant sign test of every reduced cost; find_h (Bland and Dantzig) returns a non-basic column whose reduced cost is below zero beyond the tolerance and None only when there is none; "
            "find_t returns an eligible row with its own ratio such that no eligible row has a ratio smaller by more than the tolerance, and None only without an eligible row. "
            "Bringing find_t under contract showed that the contract the step proof had ASSUMED for it was false (tie-break drift, one tolerance per near-tied row): a genuine defect, repaired (fix d8d6f69) and pinned by a bounded search over near-tie chains and pseudo-random tableaux on the real code. "
            "Three parts of the start-up are proved as statement slices: the phase-one tableau (U14.ph1: artificial unit columns form the starting basis; on the solution set of the extended system the objective row measures exactly the sum of the artificial variables), "
            "the restoring of the objective after phase one (U14.ph2, a slice nested in a match arm: on the solution set the restored row minus the recorded value is the model's objective row, and basic variables get reduced cost zero when the basis is canonical), "
            "the selection of one candidate per row (U14.rows: in row order, the first candidate of every row that has one; with as many entries as rows, entry k belongs to row k), the basis vector handed to the tableau (U14.basis: entry k is the column of the k-th selected candidate; ghost lemma lemma_basis_of_rows over the three contracts: the basic column of row k is a positive singleton of row k and no column is basic twice), the candidates for the direct start (U14.pick: a listed column has exactly one entry beyond the tolerance, positive, recorded with its own row and value), and the direct start itself (U14.canon, nested in the if-branch of into_tableau, with divide_matrix_row_by: scaling rows by their singleton entries keeps the solution set and the same objective identity holds); "
            "and the point read off a tableau is the basic solution, which solves the system of a canonical tableau (U14.vals, ghost theorem lemma_basic_sat). "
            "Anti-cycling (finishing within the iteration limit) is liveness and is NOT decided deductively; a BOUNDED search runs the cycling examples of Chvatal and Beale under every order of their structural columns, with and without an improving extra column, through the real driver (U14.drive).",
    "note": "Trusted: prelude/f64_layer.rs (exact real arithmetic on finite floats; powi by a one-entry table). Which of several rows tied within the tolerance leaves is not constrained (any of them satisfies the contract). A Kani harness re-checks find_h under CBMC's IEEE float model in the thorough tier (bounded). "
            "Not decided: termination/anti-cycling, the selection of singleton columns for the direct start, the drive-out of artificial variables at level zero and the dropping of redundant rows in the two-phase start (split_at_mut).",
    "technique": "Verus loop invariants + ghost linear-algebra lemmas on extracted Tableau::pivot / step_inner / find_h / find_t / is_optimal; bounded executable-postcondition search for the ratio test; Kani bounded cross-check of find_h (thorough)",
    "design_ref": "DESIGN.md §5 C14",
}

CLAIMED["C18"] = {
    "text": "Totality of the arithmetic and conversion helpers the property anchors, for ALL machine values (Kani, loop-free harnesses over kani::any(): complete, not bounded): every "
            "apply_binary_op / apply_unary_op of bool, f64, i64, u64 against every scalar operand and operator neither panics nor overflows, and an integer result equals the mathematical result "
            "(no silent wrap); as_integer_cast / as_usize_cast never change the value they convert (no silent saturation); span_text never panics. "
            "Totality of the pest parser, of Display and of whole stages on arbitrary strings, and termination, are NOT decided (no contract can be attached to generated code; Kani cannot execute it).",
    "note": "Trusted: CBMC's bit-precise model of Rust integers and IEEE doubles; fmt::format stubbed on error paths; Kani's float NaN/overflow checks ignored (not panics). "
            "64x64-bit multiplication exactness runs in the thorough tier only.",
    "technique": "Kani harness-level contracts (assume/assert) over full-domain symbolic scalars on the real functions, injected into a scratch copy",
    "design_ref": "DESIGN.md §5 C18",
}
CLAIMED["C19"] = {
    "text": "Operator typing only: for every operator and every pair of scalar primitives with symbolic payloads, if the static check can_apply_binary_op / can_apply_unary_op accepts the operand kinds then "
            "the dynamic application returns a value or a DATA error (Overflow, DivisionByZero), never an unsupported-operation / incompatible-type error (Kani, full domain, complete). "
            "The static RESULT kind of nested operators (PreExp::get_type) is compared with evaluation only by a BOUNDED search over about 5600 where-constants (labelled): what the checker accepts never fails with a type-class error. "
            "Soundness of function signatures, scopes, destructuring, unknown functions and undeclared variables is NOT claimed (an induction over the whole parser IL with dyn callbacks).",
    "note": "Trusted: CBMC's model of Rust integers and IEEE doubles. Non-scalar operand kinds (String, Tuple, Graph, Iterable) are not generated.",
    "technique": "Kani full-domain harnesses relating can_apply_* to apply_* on the real scalar implementations",
    "design_ref": "DESIGN.md §5 C19",
}

CLAIMED["C13"] = {
    "text": "to_standard_form is proved slice by slice (Verus, statement slices of the real function lifted mechanically; a tiling guard checks on every run that EVERY top-level statement of the function "
            "belongs to one of the slices, in order, or is one of three listed statements: into_parts, the counter record, the final constructor call (StandardLinearModel::new, itself under contract in U13.new: rows and objective padded with zeros to the number of variables evaluate as before)). "
            "Kind check (U13.kind, with find_invalid_variables proved for every validator: it lists exactly entries the validator rejects, and nothing when it accepts all): the conversion goes on only when every variable of the domain is Real or NonNegativeReal. Bound rows (U13.bnd): for every assignment that respects the sign restriction of the non-negative variables, the added rows hold exactly when every variable lies in its declared range; added rows are unit rows with finite right-hand sides. "
            "Free list (U13.free): exactly the positions of kind Real, increasing. Appending half of the split (U13.split): every row and the objective get the pair (c, -c) per free variable in list order, names / non-negative domain entries / the column counter follow; "
            "the new row's value is the old value plus c_f * (z_p - z_m) per free variable. Removing half (U13.drop, with remove_many proved for every length in U13.rmv): rows, objective and names lose exactly the listed positions in order, the domain loses exactly those entries, "
            "and a row evaluates the same on an assignment that is zero at the removed positions. Row theorem (ghost lemma over these contracts): the final row at the compacted assignment equals the ORIGINAL row at the assignment in which each split variable is the difference of its two parts. "
            "Normalisation loop (U13.norm): every row becomes an equality with non-negative right-hand side, inequality i gets its OWN column n0 + (number of inequalities before i), all rows are padded to the final width, strict rows are rejected; per row (U13.eq) the equality holds iff the source row holds with that slack / surplus. "
            "Objective (U13.obj): max is recorded as min of the negated row with the flip flag, the offset is handed over unchanged; optimal_value (U13.flip) maps the tableau value back. "
            "On top, a BOUNDED differential search (U13.std) runs the whole function against the microlp path on 2-variable LPs, and a BOUNDED Kani harness (U13.rm) re-checks remove_many for short vectors.",
    "note": "Trusted: prelude/f64_layer.rs (exact reals on finite floats), prelude/std_stubs.rs, prelude/smap.rs (IndexMap), rule catalogue R0-R59 (std definitions of the iterator chains). Preconditions, not proved: declared ranges respect the type invariant "
            "(NonNegativeReal starts at >= 0: enforced by the language front end, not by the builder / LinearModel API), row widths equal the number of variables (C08), counters fit usize. Not mechanised: the sequential composition of the slices (read off the source, guarded by the tiling check), "
            "the existence of the extended assignment for a given original / standard point, generated names ($p, $m, $sl_, $su_) differing from existing names.",
    "technique": "Verus contracts on mechanically extracted statement slices of to_standard_form and on remove_many / normalize_constraint / EqualityConstraint / optimal_value, ghost dot-product lemmas, tiling guard; bounded differential search and bounded Kani harness as additional stand-ins",
    "design_ref": "DESIGN.md §5 C13, §11.11",
}

CLAIMED["C01"] = {
    "text": "The lowering of expressions is proved arm by arm against ONE general contract of Exp::linearize (Verus, structural induction: recursive calls are used through the same contract): "
            "the lowering context only grows; at every assignment (all reals) that satisfies what the grown context demands (queued constraints, declared domains, derived range box) the returned linear form "
            "relaxes the source value in the direction the requirement allows (=, >= or <=). Proved arms: Number, Variable, Add, Sub, Mul, Div, unary minus, Abs (sign-known shortcuts, one-sided rows, exact big-M pair) and Min / Max: linearize_extreme as a whole (pruning of dominated operands incl. the proof that it does not change the extreme inside the derived box, one-sided rows, Boolean selectors with big-M rows and the sum-to-one row, sum_exps). "
            "For Abs the emitted rows are also proved complete: for every value of the operand inside its derived range the intended auxiliary values satisfy all rows (a too-small big-M constant fails this). "
            "Supporting contracts proved on the real code: requirement reversal / scaling law, the linear-form algebra over the IndexMap view, expression rebuilding, queueing a constraint / declaring an auxiliary, "
            "and Linearizer::emit_constraint: the emitted row together with what the grown context demands implies the source constraint (requirement chosen from the comparison, constant moved across with its sign). "
            "At model level the constraint loop of Linearizer::linearize (a statement slice of the real function) is proved to drain the queue and to end in a context whose demands (emitted rows, declared domains, derived box) imply EVERY constraint that was ever queued, "
            "wherever both sides are defined: emit_constraint puts the row into the context, the row together with the context implies the source constraint, and popping / lowering preserves the invariant. "
            "The SOUNDNESS direction of the logic lowering is proved as well (units U01.wit*, U01.las*, U01.tl*): binary_affine_value recognises exactly 0/1-valued affine forms equal to the operand; directional_logic_witness returns a 0/1-valued expression that is 1 only where the operand has the requested truth value "
            "(every arm: and / or in both polarities, not, implies, iff, xor); try_lower_affine_logic_assertion and lower_logic_assertion make the grown context demand the asserted truth value wherever the expression is defined (every arm); "
            "the model-level loop now uses lower_logic_assertion through this proved contract instead of an assumed one. "
            "BOUNDED (labelled, not counted as proved): the logic lowerings are ALSO checked on the real Linearizer::linearize exhaustively per model - about 7800 single-constraint models over four Boolean variables (every connective pairwise over 18 shapes, third-level samples, asserted / denied / used as 0/1 values in comparisons), all 16 assignments, all values of the Boolean auxiliaries - in BOTH directions (nothing infeasible let in, nothing feasible cut off). "
            "The logic arms of Exp::linearize are proved too (U01.reify, U01.lgA, U01.lgB): not e is the affine form 1 - e of a 0/1-valued operand; the reified and / or / implies / iff / xor auxiliaries EQUAL the connective's value wherever it is defined "
            "(from the queued comparisons z <= e_i, z >= sum - (n-1), ...); try_normalize_logic_constraint is proved (U01.norm): a reported tautology holds, a reported assertion implies the comparison, under the declared domains. "
            "With these, every arm of Exp::linearize and every function between the model-level loop and the emitted rows is under a discharged contract in the soundness direction. "
            "The statement is relative to Exp::simplify's contract, whose and / or arms are assumed and carry the C10 known finding (logic connectives over operands that are not 0/1-valued). " 
            "NOT decided deductively (listed in the evidence): the converse direction (no source-feasible point is cut off; big-M constants large enough), "
            "domain publication after the loop, that every variable of a row is marked used (so that it is in the position table), termination. The step from the named rows of the final context to the positional rows of the LinearModel IS proved (U08.asm with the ghost theorem lemma_laid_out_value: a positional row evaluated at the assignment read by position has the value of the named row).",
    "note": "Trusted: prelude/f64_layer.rs (floats as exact extended reals), prelude/smap.rs (IndexMap<String,_> view), prelude/std_stubs.rs. BoundsAnalyzer::bounds_of is used through its contract, proved in U07.fwd. "
            "Rules: format! abstracted to opaque strings (R6), auxiliary counters abstracted (R21), masked arms end in a diverging stub.",
    "technique": "Verus contracts woven into Exp::linearize and its helpers extracted from linearizer.rs on every run; arm masking; ghost semantics oracle spec/semantics.rs",
    "design_ref": "DESIGN.md §5 C01",
}
CLAIMED["C02"] = {
    "text": "Same units as C01: the general contract's relaxation clause is exactly the objective statement per sub-expression (PreferLower: the linear value can only exceed the source value, so minimising it reaches the source value; "
            "symmetric for PreferHigher; equality for Exact), proved for the affine arms and Abs, together with the requirement reversal law through subtraction, negation and negative scaling and the linear-form algebra "
            "(constant offset carried through merge/scale). The choice of the requirement from the optimisation direction and the offset / coefficient hand-over are proved on statement slices lifted verbatim from Linearizer::linearize (U02.obj). "
            "NOT decided: that the optimum over the auxiliaries is attained for a whole model (the completeness direction through nested auxiliaries: big-M constants large enough), logic arms.",
    "note": "As C01. A statement slice is a contiguous run of statements of the real function turned into a function of its free variables; the rest of that function is not in the unit.",
    "technique": "Verus contracts (relaxes(requirement, linear value, source value)) on Exp::linearize arms, linearize_extreme and ValueRequirement::{reversed, through_scale}",
    "design_ref": "DESIGN.md §5 C02",
}

_LIB = ("Relative proof: microlp 0.5 is assumed to honour its documented contract, written down in prelude/libs/microlp.rs (Optimal/Feasible = stored point feasible, integer columns exact, "
        "objective() its objective; Interrupted = nothing promised; Err(Infeasible)/Err(Unbounded) genuine; invalid gaps rejected). ")
CLAIMED["C04"] = {
    "text": "For the MILP bridge (and auto_solver, which delegates to it) it is proved for ALL linear models that the problem handed to the library is exactly the model (column k = variable k with its objective coefficient, bounds and integrality; "
            "row j = constraint j term by term with the same relation and right-hand side; direction), and that a returned solution is the library's feasible point read back faithfully: one assignment per variable in order, "
            "integer and Boolean values exact, reported value = library objective + offset. optimal_value of the tableau path maps the sign flip and offset correctly. "
            "LinearModel::calc_constraints / calc_objective are proved to report, for every row in order and under the row's own name, exactly that row's left-hand side at the given values, and the objective function at the values plus the offset (U04.act). "
            "LpSolution::new is used through its contract, proved in U16.sol. For the tableau path, Tableau::variables_values is proved to return the basic solution, and the basic solution of a canonical tableau solves its equation system (U14.vals; pivots keep that system equivalent, U14.pivot); "
            "the mapping of standard-form variables back to the model's variables by their generated names (as_lp_solution) is not under contract. "
            "BOUNDED (labelled, not counted as proved): the property's own statement is executed on the real default-feature solvers (tableau simplex incl. as_lp_solution, Clarabel through the good_lp bridge, the microlp LP and MILP bridges, the auto solver) "
            "over about 1800 three-variable models: every returned solution is checked against the model (rows, bounds, integrality, one value per variable, objective incl. offset, named-row activities). "
            "NOT decided deductively: feasibility inside the external solvers themselves (assumed contract), the good_lp/Clarabel bridge (generic trait plumbing and closures), the filter of make_constraints_map_from_assignment (rows named __*), the name filtering of as_lp_solution: all four are covered by the bounded check only.",
    "note": _LIB + "Trusted preludes: f64_layer.rs, smap.rs, std_stubs.rs. Assumed: make_constraints_map_from_assignment (ensures true).",
    "technique": "Verus loop invariants over a ghost model of the microlp Problem/Solution on the extracted solve_milp_lp_problem_with",
    "design_ref": "DESIGN.md §5 C04",
}
CLAIMED["C05"] = {
    "text": "Verdict mapping proved on the real code: Err(Infeasible)/Err(Unbounded) of the MILP bridge are returned only when the library reports them for exactly this model; auto_solver answers without the solver only a model with no rows and no variables; "
            "one step of the tableau simplex reports Finished only without an improving column and Unbounded only with a genuine witness column (U14.step), pivots preserve the solution set (U14.pivot), and the selection rules behind the step (optimality test, entering column, ratio test) are proved for every tableau size (U14.ratio; the ratio test after the repair d8d6f69 of its tie-break drift). "
            "BOUNDED (labelled): the ratio test's executable postcondition on near-tie chains and pseudo-random tableaux; the tableau path against the microlp bridge on small LPs (U13.std), and the tableau path against Clarabel on about 900 continuous three-variable models (U04.sol): same verdict kind, optima within 1e-6 relative. "
            "The good_lp / Clarabel bridge maps the library's Infeasible / Unbounded errors to the dedicated kinds and nothing else to them (U05.glp, relative to the documented error type). "
            "NOT decided deductively: that the simplex always reaches a verdict (termination), the drive-out of artificial variables in the two-phase start, what Clarabel reports for a model and the rest of the good_lp bridge, agreement between solvers in general (bounded checks only).",
    "note": _LIB + "A Kani harness re-checks find_h under CBMC's float model in the thorough tier (bounded, labelled).",
    "technique": "Verus contracts on extracted auto_solver / solve_milp_lp_problem_with / Tableau::step_inner / find_h / find_t / is_optimal; bounded differential searches on the real solvers",
    "design_ref": "DESIGN.md §5 C05",
}
CLAIMED["C15"] = {
    "text": "For every model and every option setting it is proved that the MILP bridge never returns a solution from an interrupted search (the call is an error), labels a solution Optimal only if the library proved optimality within the requested gap, "
            "keeps a feasible-but-unproven incumbent labelled Feasible, forwards the gap unchanged, and returns an error for a negative or non-finite gap (rejected by the library). "
            "BOUNDED (labelled): the statement itself is executed on the real bridge over 24 knapsack-like models x 7 gap settings x 4 time limits (feasibility of every returned point, Optimal only within the gap of the unlimited optimum, invalid gaps rejected); "
            "a relabelling that needs the time limit to fire in mid-search is timing-dependent and outside what this grid can show. "
            "NOT decided: what the library does inside its time limit (assumed contract); the good_lp status mapping.",
    "note": _LIB,
    "technique": "Verus postconditions relating LpSolution.status to the ghost Solution status on the extracted solve_milp_lp_problem_with",
    "design_ref": "DESIGN.md §5 C15",
}

CLAIMED["C10"] = {
    "text": "Value preservation is proved for all expressions and all real assignments (Verus, structural induction through the function's own contract): whenever the original is defined, Exp::flatten (every arm: both distributions, "
            "negation pulling, division distribution, structural recursion) and the arithmetic arms (Add, Sub, Mul, Div, unary minus, Abs: constant folding, 0/1 identities, the zero-product rule, no folding through a zero divisor) and the logic arms not / xor / implies / iff (as variants and as binary operators) of Exp::simplify "
            "return an expression that is defined and has the same value; finite constants stay finite. "
            "'A division by zero or by a non-constant is never rewritten away' is proved for the arithmetic fragment in its semantic form: at every assignment where the original is undefined (a division by zero, e.g. 1/x at x = 0) "
            "the simplified expression is undefined too (U10.keep / U10.keepu); this rests on the guard of the zero-product rule, proved to be exactly 'contains a division by zero or by a non-literal' (U10.div). "
            "Idempotence and the behaviour on abs/min/max-wrapped divisions are checked only by a BOUNDED search on the real code (labelled). "
            "KNOWN FINDING (recorded, not repaired: the repair breaks an existing test): simplify_logic_nary returns a single remaining operand without its connective, so `x and 1` becomes `x`, which changes the value for every operand that is not 0/1-valued; "
            "the bounded search (now over logic nodes with non-0/1 operands too) reports it as one entry keyed by that call site and still reports every failure it does not explain. "
            "The min / max arms are proved too (U10.simpm): an all-constant list folds to its smallest / largest constant (from +/- infinity), otherwise the operands are simplified in place, value preserved wherever the original is defined. "
            "NOT decided: the n-ary and / or arms beyond that finding (assumed arms), "
            "termination, and the constant-spelling sentence of the property (bound inference before simplification).",
    "note": "Trusted: prelude/f64_layer.rs (floats as exact reals: a rewrite that is exact over the reals may still change a rounded result). Assumed arms are listed in the evidence. "
            "Exp::simplify is split over five queries (binary / unary / logic arms, two clause groups) because the joint query is unstable in the solver.",
    "technique": "Verus contracts sem(r, env) == sem(self, env) and 'undefined stays undefined' woven into extracted Exp::flatten / Exp::simplify; executable-postcondition search for counterexamples and bounded clauses",
    "design_ref": "DESIGN.md §5 C10",
}

CLAIMED["C08"] = {
    "text": "Facets of well-formedness proved on the real code for all inputs (Verus): LinearizationContext::extract_coeffs returns exactly one coefficient per variable of the model's variable list, in that order, each the coefficient "
            "stored in the linear form or 0 and all finite when the form is finite; declaring an auxiliary keeps the domain's key set well-formed; queued constraints are finite (c_fin is a precondition of add_constraint and is discharged at every call site in the proved arms); "
            "every proved arm of Exp::linearize returns a finite linear form or an error, and the exact Abs lowering returns the missing-bounds error instead of a constant when the operand's range is not finite. "
            "The set of user-written row names is built as exactly the non-empty names of the rows (slice source_names_of, rule R67), and the row-name de-duplication loop of Linearizer::linearize (a statement slice lifted verbatim from the function) is proved to leave non-empty names pairwise distinct, to keep the first use of every user-written name, to keep unnamed rows unnamed and to give a renamed row a name no user wrote. "
            "The final assembly is proved as two more slices (U08.asm): the position table maps the i-th variable name to i (for a duplicate-free list), and row k of the model is the named row k laid out by that table - one entry per position, the named coefficient where the row has one, 0 elsewhere; comparison, right-hand side and name carried over; "
            "The variable list and the domain of the compiled model are proved too (U08.vars, with Linearizer::used_variables): the list holds exactly the used variables of the context, each once, sorted (sort and contains on Vec<String> through a trusted stub), and the domain keeps exactly the entries of the listed variables, unchanged - the first claim of the property. "
            "A tiling guard keeps every other top-level statement of Linearizer::linearize listed. "
            "Sortedness / key-set equality of the variable list, presence of every referenced variable, one finite coefficient per variable and the missing-bounds error are additionally checked on the whole real Linearizer::linearize by a BOUNDED search over a family of models (labelled, not counted as proved). "
            "NOT decided deductively: that every variable occurring in a row is marked used, auxiliary-name collision freedom (names are format! strings abstracted to opaque values by rule R6), the logic arms, termination of the name search.",
    "note": "Trusted: prelude/f64_layer.rs, prelude/smap.rs, prelude/std_stubs.rs. BoundsAnalyzer::bounds_of is used through its contract (proved in U07.fwd).",
    "technique": "Verus contracts on extracted extract_coeffs / add_constraint / declare_variable / Exp::linearize arms (finite-or-error postcondition) and loop invariants on the name de-duplication slice of Linearizer::linearize; bounded executable-postcondition search on the whole function",
    "design_ref": "DESIGN.md §5 C08",
}

CLAIMED["C16"] = {
    "text": "Proved (Verus, all inputs): (1) to_exp translates an index-based builder tree into a language tree with exactly the same meaning under the language semantics (every variant incl. min/max/and/or lists), "
            "and eval_expr - the evaluator behind BuilderSolution::eval - computes that meaning, every arm (the iterator fold / all / any of the Min / Max / And / Or arms are read as loops by rules R51 / R52); "
            "(2) ModelBuilder::new / add_var / with / satisfy keep the representation invariant 'handle i names the i-th declared variable, names distinct, every name has a domain entry' (a duplicate name never returns), "
            "and into_model / BuilderConstraint::to_constraint hand over a name-based model whose k-th constraint holds at an assignment exactly when the builder's k-th constraint does, whose objective is the builder's "
            "(or the constant-0 feasibility objective), and in which every declared variable keeps its type and is marked used; (3) LpSolution::new / value_of: reading by name returns the value of the first assignment with that name. "
            "The overloaded operators (+ - * / for every Expr / Var / f64 / i32 operand pair, unary minus, not, xor, implies, iff, abs) are proved by loop-free Kani harnesses over symbolic handles and payloads (complete) to build exactly the node they stand for. "
            "BOUNDED (labelled, not counted as proved): agreement of the four front doors themselves - about 90 model descriptions each expressed as text and through the builder (3 call orders, Microlp and Auto) are compiled through "
            "RoocParser+Linearizer, RoocSolver::solve_using, PipeRunner (MILP and auto presets) and ModelBuilder and compared row for row, by verdict and optimal value; every returned point is checked against an independent evaluator of the description; "
            "var_value / numeric_value / eval / value are compared with the by-name values; unused declared variables must resolve inside their domain. One genuine defect was found this way and repaired (fix: dc09504): a bare 'solve' had objective value 1 through the text doors and 0 through the builder. "
            "NOT decided: the macros (vars!, constraint!, expr!: exercised only by the repository's tests), BuilderSolution's generic trait plumbing beyond the bounded search, solutions built by deserialisation.",
    "note": "Trusted: prelude/f64_layer.rs (floats as exact extended reals), prelude/std_stubs.rs (incl. R44: panic! is a call that does not return), prelude/smap.rs (IndexMap as an insertion-ordered map). Rule R33 renames the extracted helper `truthy` (clash with the ghost name).",
    "technique": "Verus contracts relating sem(to_exp(e)), eval_expr(e), into_model and value_of to ghost meanings (esem, bc_holds, first_val) on functions extracted from builder/expr.rs, builder/model.rs and solvers/common.rs; Kani full-domain harnesses for the operator impls; bounded executable check of the entry points against each other (labelled bounded)",
    "design_ref": "DESIGN.md §5 C16, §11.7",
}

CLAIMED["C11"] = {
    "category": "exploration",
    "text": "BOUNDED only (labelled; nothing here is counted as proved): no contract can be attached to the formatter's text output and to re-parsing it (the parser is generated code neither verifier takes), so the property is checked "
            "on the real code over a stated corpus: about 280 source texts covering every (parent, child, side) operator triple over + - * /, unary minus, constants on either side, abs / min / max blocks, all logic connectives incl. "
            "both nestings of implies and xor, named rows, where-constants, enumerate / range iterations and all declaration forms. For each: the formatted text parses, formats to itself, and compiles to the same rendered linear model. "
            "Two genuine defects were found this way and repaired (fix: commits): right-nested - and / (and same-level logic) lost their parentheses; a 'solve' objective was printed as 'solve true', which does not parse.",
    "note": "Bound: the corpus in units/U11.fmt/witness.rs. Trusted: the parser (the same parser reads both texts); model equality is compared on the rendered linear model.",
    "technique": "bounded executable check of the round trip on the real RoocParser::format (stand-in where no contract can reach; labelled bounded)",
    "design_ref": "DESIGN.md §5 C11 / C12, §11.2",
}

CLAIMED["C12"] = {
    "category": "exploration",
    "text": "BOUNDED only (labelled; nothing here is counted as proved), for the same reason as C11: the property is about text handed back to the generated parser. On a stated corpus of about 135 source models (right-nested - and /, "
            "negative constants under unary minus, coefficients from 1e-9 to 1e9 of either sign, abs / min / max rows with $-auxiliaries, every logic connective, named / duplicate-named / unnamed rows, offsets, all domain kinds, indexed names) "
            "the real renderers are checked: the rendering of the compiled model and of the linear model is accepted, compiles to the same objective, rows, right-hand sides and offset, variable domains of the same kind whose re-derived ranges lie inside the original ones, "
            "and rendering a recompiled linear model is a fixed point. Four genuine defects were found this way and repaired (fix: commits): lost parentheses in the model rendering, lost sign of tiny coefficients / offsets, "
            "'solve 1' / 'solve 0 + 1' for feasibility objectives, '-0' bounds.",
    "note": "Bound: the corpus in units/U12.out/witness.rs. Domains are compared up to tightening: re-compiling a rendered model runs bound inference on already simplified rows and may derive a smaller (still sound) range; "
            "this is reported in DESIGN.md as an observation, not as a finding. Trusted: the parser.",
    "technique": "bounded executable check of render -> parse -> compile -> render on the real Display implementations (stand-in where no contract can reach; labelled bounded)",
    "design_ref": "DESIGN.md §5 C11 / C12, §11.2",
}

CLAIMED["C20"] = {
    "category": "exploration",
    "text": "BOUNDED only (labelled; nothing here is counted as proved): the sensitivities are computed inside clarabel / good_lp and rooc forwards them by row name, so no contract on repository code decides the sign convention or the pairing of prices with rows. "
            "The statement is executed instead on the real Clarabel path: for 9 row sets x 5 objectives x min / max x 2 offsets (two continuous variables; <=, >= and = rows, slack rows, unnamed rows last, first and between named ones) the reported shadow price of every named row is compared with the "
            "central finite difference of the optimal value with respect to that row's right-hand side (base points with a kink are skipped: the property excludes degenerate optima); inactive rows must report zero, unnamed rows none, every named row one.",
    "note": "Bound: the corpus in units/U20.dual/witness.rs; step 1e-3, agreement within 1e-4 relative. Trusted: Clarabel's optimum for the base and perturbed models. The builder-side accessors (BuilderSolution::shadow_price) forward to the same map.",
    "technique": "bounded executable check of the reported duals against finite-difference sensitivities on the real solver path (stand-in where no contract can reach; labelled bounded)",
    "design_ref": "DESIGN.md §9 C20, §11.9",
}

CLAIMED["C17"] = {
    "category": "exploration",
    "text": "BOUNDED only (labelled; nothing here is counted as proved): the export is text meant for an independent reader, and a contract would need a formal LP-format reader plus a string theory for format! / push_str output, which neither verifier has. "
            "The statement is executed instead: a small CPLEX-LP reader written inside the check (sharing no code with the exporter) reads LinearModel::to_lp_format's text for about 2600 three-variable models - 11 variable kinds, 8 coefficient triples "
            "(zero rows, 1e-9 .. 1e8, negative, within 1e-6 of 1), 5 naming patterns incl. user names that look like generated ones, min / max / satisfy, three offsets - and must recover sense, objective and constant, every row (coefficients, relation, "
            "right-hand side, user name), bounds, binary / general markings, with unique row names. One genuine defect was found this way and repaired (fix: 222a2c5): a generated row name repeated a user-given one.",
    "note": "Bound: the corpus in units/U17.lp/witness.rs. Trusted: the reader's own reading of the LP conventions (default bounds 0 .. +infinity, binaries 0 .. 1, `free`, a constant term in the objective).",
    "technique": "bounded executable check of export -> independent reader -> comparison with the model on the real LinearModel::to_lp_format (stand-in where no contract can reach; labelled bounded)",
    "design_ref": "DESIGN.md §9 C17, §11.9",
}

CLAIMED["C09"] = {
    "category": "exploration",
    "text": "BOUNDED only (labelled; nothing here is counted as proved): the operator table is data handed to pest's PrattParser and the tokens come from macro-generated grammar code; neither verifier takes that code, and assuming the library "
            "implements precedence climbing would assume the property. The statement is executed instead: about 900 generated expression texts (arithmetic with implicit multiplications 2x, 2(x+1), (a)(b)c; logic with keywords and the aliases && || ! -> <->, "
            "identifiers that start with a keyword; 2 to 5 operands, nesting <= 2, one optional unary operator per operand) are compiled by the real parser and read by an independent precedence-climbing reader written in the check from the documented table; "
            "both are evaluated (4 assignments for arithmetic, all 16 for logic) and must agree.",
    "note": "Bound: the generator in units/U09.prec/witness.rs, seeded by VERIF_SEED. Trusted: the reference reader's reading of the documented table; the transformer between parse tree and model expression (it is part of what is checked).",
    "technique": "bounded executable differential check of the real parser against an independent precedence-climbing reader (stand-in where no contract can reach; labelled bounded)",
    "design_ref": "DESIGN.md §9 C09, §11.9",
}

CLAIMED["C06"] = {
    "category": "exploration",
    "text": "BOUNDED only (labelled; nothing here is counted as proved): the property relates two parses, and the expansion engine works on parser IL with dyn Fn callbacks, scope frames and evaluated iterables that Verus does not accept and Kani cannot execute. "
            "The statement is executed instead on 17 hand-written pairs (compact text, hand-unrolled text) covering sum over ranges (exclusive, inclusive, negative bounds) / arrays / matrices / dependent ranges, for-quantified named rows, enumerate, zip, len, array access, prod / avg / min / max / all / any / xor blocks, "
            "graph nodes / weighted edges / neighbour edges, indexed and compound variable names and multi-index declarations: both texts of a pair must compile to the same linear model (rows in order with names, coefficients and right-hand sides; objective; variables; domains).",
    "note": "Bound: the pairs in units/U06.unroll/witness.rs. Trusted: that each unrolled text is the iteration-order unrolling of its compact text (written by hand from the language documentation).",
    "technique": "bounded executable check of compact vs hand-unrolled texts through the real front end (stand-in where no contract can reach; labelled bounded)",
    "design_ref": "DESIGN.md §9 C06, §11.9",
}

CLAIMED["C03"] = {
    "category": "exploration",
    "text": "BOUNDED only (labelled; nothing here is counted as proved): the property quantifies over source texts through the pest-generated parser and an external MILP search; every in-repo step that can carry a contract is covered under C01 / C02 / C04 / C05, "
            "and no further function exists to attach an obligation to. The statement is executed instead: 220 generated models (two integers in [0,3] and [-2,2], two Booleans; 1 to 4 constraints over + - * abs min max neg and not / and / or / implies / iff / xor, nesting <= 2; "
            "min or max objective) are rendered as text, solved through RoocSolver::solve_using(auto_solver), and compared with a brute-force search over all 80 assignments using an independent evaluator: a solution exactly when a satisfying assignment exists, "
            "feasible, with the right objective value, and optimal; otherwise the infeasible verdict. A second family of 160 models over two continuous variables checks the returned point the same way and uses a 13 x 9 grid of robustly feasible candidates as a one-sided test of optimality and of the infeasible verdict. One genuine defect was found this way and repaired (fix: 0f3a8ac): the lowering relied on inferred ranges (a Boolean narrowed to one value, an integer interval without an integral point) "
            "that the linear model does not enforce, so an infeasible model could come back with a solution. The repaired statements themselves are under contract, but under C07 (U07.reset: afterwards the variable's range admits every value of its published type); nothing about C03 is counted as proved, and six pinned models (the inputs of that defect and their neighbours) run on every seed.",
    "note": "Bound: the generator in units/U03.e2e/witness.rs, seeded by VERIF_SEED; vacuity guard: at least 60 solved and 5 infeasible models. Trusted: the independent evaluator's reading of the language semantics (the one of spec/semantics.rs).",
    "technique": "bounded executable check of the one-shot entry point against brute force over all assignments (stand-in where no contract can reach; labelled bounded)",
    "design_ref": "DESIGN.md §9 C03, §11.9",
}

NOT_APPLICABLE = {

}
