// ----- ghost meaning of a source-level constraint (shared by the lowering context view lz.rs and the bound analyser units) -----
// a queued source constraint holds at env (a bare logic assertion = its expression is truthy)
pub open spec fn c_holds(c: Constraint, env: Env) -> bool {
    if c.is_logic_assertion {
        sem(c.lhs, env) matches Some(l) && truthy(l)
    } else {
        match (sem(c.lhs, env), sem(c.rhs, env)) { (Some(l), Some(r)) => cmp_sem(c.constraint_type, l, r), _ => false }
    }
}
// every numeric literal of a queued constraint is finite (C08: no NaN / infinity reaches the linear model)
pub open spec fn c_fin(c: Constraint) -> bool { exp_fin(c.lhs) && exp_fin(c.rhs) }
