// ----- ghost meaning of a source-level constraint (shared by the lowering context view lz.rs and the bound analyser units) -----
// a queued source constraint holds at env (a bare logic assertion = its expression is truthy)
pub open spec fn c_holds(c: Constraint, env: Env) -> bool {
    if c.is_logic_assertion {
        sem(c.lhs, env) matches Some(l) && truthy(l)
    } else {
        match (sem(c.lhs, env), sem(c.rhs, env)) { (Some(l), Some(r)) => cmp_sem(c.constraint_type, l, r), _ => false }
    }
}
// the same, wherever both sides are defined (an undefined side — a division by zero — demands nothing): this is what a queued
// constraint demands of an assignment, and what an emitted row is proved to imply
pub open spec fn c_holds_w(c: Constraint, env: Env) -> bool {
    if c.is_logic_assertion {
        sem(c.lhs, env) matches Some(l) ==> truthy(l)
    } else {
        (sem(c.lhs, env) is Some && sem(c.rhs, env) is Some) ==> cmp_sem(c.constraint_type, sem(c.lhs, env)->Some_0, sem(c.rhs, env)->Some_0)
    }
}
// every numeric literal of a queued constraint is finite (C08: no NaN / infinity reaches the linear model)
pub open spec fn c_fin(c: Constraint) -> bool { exp_fin(c.lhs) && exp_fin(c.rhs) }
// the comparison a constraint carries, read on its own (for a bare logic assertion this is `lhs = 1`, which is how the bound analyser reads it;
// it coincides with c_holds at assignments where the asserted expression is 0/1-valued)
pub open spec fn c_cmp(c: Constraint, env: Env) -> bool {
    match (sem(c.lhs, env), sem(c.rhs, env)) { (Some(l), Some(r)) => cmp_sem(c.constraint_type, l, r), _ => false }
}
