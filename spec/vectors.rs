// ----- ghost oracle: finite vectors, dot products (DESIGN §4) -----
pub open spec fn fin_seq(s: Seq<F64>) -> bool { forall|j: int| 0 <= j < s.len() ==> fv(#[trigger] s[j]) is Fin }
pub open spec fn rect(a: Seq<Vec<F64>>, n: int) -> bool { forall|i: int| 0 <= i < a.len() ==> (#[trigger] a[i]).len() == n }
pub open spec fn fin_mat(a: Seq<Vec<F64>>) -> bool { forall|i: int| 0 <= i < a.len() ==> fin_seq((#[trigger] a[i])@) }
pub open spec fn rvs(r: Seq<F64>) -> Seq<real> { r.map_values(|x: F64| rv(x)) }
pub open spec fn dot(r: Seq<real>, x: Seq<real>) -> real
    decreases r.len()
{
    if r.len() == 0 || x.len() != r.len() { 0real } else { dot(r.drop_last(), x.drop_last()) + r.last() * x.last() }
}
pub proof fn lemma_dot_comb(r: Seq<real>, t: Seq<real>, f: real, x: Seq<real>, n: Seq<real>)
    requires r.len() == t.len(), r.len() == x.len(), n.len() == r.len(),
        forall|j: int| 0 <= j < r.len() ==> n[j] == r[j] - f * t[j]
    ensures dot(n, x) == dot(r, x) - f * dot(t, x)
    decreases r.len()
{
    reveal(rmul_s); reveal(rdiv_s);
    if r.len() == 0 {
    } else {
        lemma_dot_comb(r.drop_last(), t.drop_last(), f, x.drop_last(), n.drop_last());
        let b = dot(t.drop_last(), x.drop_last());
        assert(n.last() == r.last() - f * t.last());
        assert((r.last() - f * t.last()) * x.last() == r.last() * x.last() - f * (t.last() * x.last())) by (nonlinear_arith);
        assert(f * (b + t.last() * x.last()) == f * b + f * (t.last() * x.last())) by (nonlinear_arith);
    }
}
pub proof fn lemma_dot_scale(t: Seq<real>, p: real, x: Seq<real>, n: Seq<real>)
    requires t.len() == x.len(), n.len() == t.len(), p != 0real,
        forall|j: int| 0 <= j < t.len() ==> n[j] == t[j] / p
    ensures dot(n, x) == dot(t, x) / p
    decreases t.len()
{
    reveal(rmul_s); reveal(rdiv_s);
    if t.len() == 0 {
        assert(0real / p == 0real) by (nonlinear_arith) requires p != 0real;
    } else {
        lemma_dot_scale(t.drop_last(), p, x.drop_last(), n.drop_last());
        let b = dot(t.drop_last(), x.drop_last());
        assert(n.last() == t.last() / p);
        assert((t.last() / p) * x.last() == (t.last() * x.last()) / p) by (nonlinear_arith) requires p != 0real;
        assert(b / p + (t.last() * x.last()) / p == (b + t.last() * x.last()) / p) by (nonlinear_arith) requires p != 0real;
    }
}
