// ----- ghost oracle: tolerance comparisons (DESIGN §5 C14, U14.tol) -----
pub open spec fn rabs_t(x: real) -> real { if x >= 0real { x } else { -x } }
pub open spec fn tol_p(p: int) -> real { rpow(10real, -p) }
pub open spec fn EPS() -> real { 1real / 100000real }
// intended meanings, on finite values
pub open spec fn t_eq(a: real, b: real, e: real) -> bool { rabs_t(a - b) < e }
pub open spec fn t_lt(a: real, b: real, e: real) -> bool { a < b && !t_eq(a, b, e) }
pub open spec fn t_gt(a: real, b: real, e: real) -> bool { a > b && !t_eq(a, b, e) }
pub open spec fn t_le(a: real, b: real, e: real) -> bool { a < b || t_eq(a, b, e) }
pub open spec fn t_ge(a: real, b: real, e: real) -> bool { a > b || t_eq(a, b, e) }
// the six predicates form a consistent order for every positive tolerance
pub proof fn lemma_tolerance_order(a: real, b: real, e: real)
    requires e > 0real,
    ensures
        t_eq(a, b, e) ==> t_le(a, b, e) && t_ge(a, b, e),
        t_lt(a, b, e) ==> !t_eq(a, b, e) && !t_gt(a, b, e) && t_le(a, b, e),
        t_gt(a, b, e) ==> !t_eq(a, b, e) && !t_lt(a, b, e) && t_ge(a, b, e),
        t_lt(a, b, e) || t_eq(a, b, e) || t_gt(a, b, e),
        t_le(a, b, e) <==> !t_gt(a, b, e),
        t_ge(a, b, e) <==> !t_lt(a, b, e),
        t_lt(a, b, e) <==> a <= b - e,
        t_gt(a, b, e) <==> a >= b + e,
        t_eq(a, b, e) <==> t_eq(b, a, e),
{
}
