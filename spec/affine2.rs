// ----- sums over an insertion-ordered coefficient map under insertion, update and removal (AffineForm::merge / scale) -----
pub proof fn lemma_tsum_ext(k1: Seq<Seq<char>>, m1: Map<Seq<char>, F64>, k2: Seq<Seq<char>>, m2: Map<Seq<char>, F64>, env: Env, n: int)
    requires 0 <= n <= k1.len(), n <= k2.len(), forall|j: int| 0 <= j < n ==> k1[j] == k2[j] && rv(m1[k1[j]]) == rv(m2[k2[j]]),
    ensures tsum(k1, m1, env, n) == tsum(k2, m2, env, n),
    decreases n,
{ if n > 0 { lemma_tsum_ext(k1, m1, k2, m2, env, n - 1); } }
pub proof fn lemma_tsum_update(keys: Seq<Seq<char>>, m: Map<Seq<char>, F64>, p: int, v: F64, env: Env, n: int)
    requires keys.no_duplicates(), 0 <= p < keys.len(), 0 <= n <= keys.len(),
    ensures tsum(keys, m.insert(keys[p], v), env, n) == tsum(keys, m, env, n) + (if p < n { rmul_s(env[keys[p]], rv(v)) - rmul_s(env[keys[p]], rv(m[keys[p]])) } else { 0real }),
    decreases n,
{ if n > 0 { lemma_tsum_update(keys, m, p, v, env, n - 1); if n - 1 != p { assert(keys[n - 1] != keys[p]); } } }
pub proof fn lemma_tsum_push(keys: Seq<Seq<char>>, m: Map<Seq<char>, F64>, k: Seq<char>, v: F64, env: Env)
    requires !keys.contains(k),
    ensures tsum(keys.push(k), m.insert(k, v), env, keys.len() as int + 1) == tsum(keys, m, env, keys.len() as int) + rmul_s(env[k], rv(v)),
{
    let k2 = keys.push(k);
    assert forall|j: int| 0 <= j < keys.len() implies keys[j] == k2[j] && rv(m[keys[j]]) == rv(m.insert(k, v)[k2[j]]) by { assert(keys[j] != k); }
    lemma_tsum_ext(keys, m, k2, m.insert(k, v), env, keys.len() as int);
}
// removing the key at position p removes exactly its term; filtering a duplicate-free list by "differs from keys[p]" is that removal
// (stated for any predicate with that meaning: two closures with the same body are not the same term for the verifier)
pub proof fn lemma_filter_is_remove(keys: Seq<Seq<char>>, p: int, f: spec_fn(Seq<char>) -> bool)
    requires keys.no_duplicates(), 0 <= p < keys.len(), forall|x: Seq<char>| #[trigger] f(x) == (x != keys[p]),
    ensures keys.filter(f) == keys.remove(p),
    decreases keys.len(),
{
    let k = keys[p];
    reveal(Seq::filter);
    let last = keys.len() - 1;
    if p == last {
        assert forall|j: int| 0 <= j < last implies f(#[trigger] keys.drop_last()[j]) by { assert(keys[j] != keys[p]); }
        lemma_filter_all(keys.drop_last(), f);
        assert(keys.remove(p) == keys.drop_last());
        assert(!f(keys.last()));
    } else {
        assert(keys.drop_last().no_duplicates());
        assert(keys.drop_last()[p] == k);
        lemma_filter_is_remove(keys.drop_last(), p, f);
        assert(keys[last] != k);
        assert(f(keys.last()));
        assert(keys.remove(p) == keys.drop_last().remove(p).push(keys[last]));
    }
}
pub proof fn lemma_filter_all(keys: Seq<Seq<char>>, f: spec_fn(Seq<char>) -> bool)
    requires forall|j: int| 0 <= j < keys.len() ==> f(#[trigger] keys[j])
    ensures keys.filter(f) == keys
    decreases keys.len()
{
    reveal(Seq::filter);
    if keys.len() > 0 { lemma_filter_all(keys.drop_last(), f); assert(keys == keys.drop_last().push(keys.last())); }
}
pub proof fn lemma_tsum_remove(keys: Seq<Seq<char>>, m: Map<Seq<char>, F64>, p: int, env: Env)
    requires keys.no_duplicates(), 0 <= p < keys.len(),
    ensures tsum(keys.remove(p), m.remove(keys[p]), env, keys.len() as int - 1) == tsum(keys, m, env, keys.len() as int) - rmul_s(env[keys[p]], rv(m[keys[p]])),
    decreases keys.len(),
{
    let n = keys.len() as int;
    let last = n - 1;
    if p == last {
        assert(keys.remove(p) == keys.drop_last());
        assert forall|j: int| 0 <= j < last implies keys.drop_last()[j] == keys[j] && rv(m.remove(keys[p])[keys[j]]) == rv(m[keys[j]]) by { assert(keys[j] != keys[p]); }
        lemma_tsum_ext(keys.drop_last(), m.remove(keys[p]), keys, m, env, last);
    } else {
        let kd = keys.drop_last();
        assert(kd.no_duplicates());
        lemma_tsum_remove(kd, m, p, env);
        let kr = keys.remove(p);
        assert(kr == kd.remove(p).push(keys[last]));
        assert(keys[last] != keys[p]);
        // the first n - 2 entries of kr are those of kd.remove(p)
        lemma_tsum_ext(kr, m.remove(keys[p]), kd.remove(p), m.remove(kd[p]), env, last - 1);
        lemma_tsum_ext(kd, m, keys, m, env, last);
        assert(kr[last - 1] == keys[last]);
    }
}
// keys_without (prelude/smap.rs) on a duplicate-free list
pub proof fn lemma_without_present(keys: Seq<Seq<char>>, p: int)
    requires keys.no_duplicates(), 0 <= p < keys.len() ensures keys_without(keys, keys[p]) == keys.remove(p)
{ lemma_filter_is_remove(keys, p, key_differs(keys[p])); }
pub proof fn lemma_without_absent(keys: Seq<Seq<char>>, k: Seq<char>)
    requires !keys.contains(k) ensures keys_without(keys, k) == keys
{ assert forall|j: int| 0 <= j < keys.len() implies key_differs(k)(#[trigger] keys[j]) by { assert(keys.contains(keys[j])); } lemma_filter_all(keys, key_differs(k)); }
