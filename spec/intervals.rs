// ----- ghost oracle: intervals (DESIGN §4) -----
pub open spec fn contains(b: Bounds, x: real) -> bool { ext_le(fv(b.lower), Ext::Fin(x)) && ext_le(Ext::Fin(x), fv(b.upper)) }
// no NaN; lower is never +inf, upper never -inf
pub open spec fn wf(b: Bounds) -> bool { !(fv(b.lower) is NaN) && !(fv(b.upper) is NaN) && !(fv(b.lower) is PosInf) && !(fv(b.upper) is NegInf) }
pub open spec fn rabs(x: real) -> real { if x >= 0real { x } else { -x } }
pub open spec fn rmul(a: real, b: real) -> real { rmul_s(a, b) }
pub open spec fn rdiv(a: real, b: real) -> real { rdiv_s(a, b) }
