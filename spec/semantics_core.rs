// ----- ghost oracle, core part: assignments and arithmetic wrappers (no dependence on the expression type) -----
pub type Env = Map<Seq<char>, real>;
// products and quotients go through these wrappers so that nonlinear facts can be stated as triggerable lemmas
pub open spec fn rmul_s(c: real, a: real) -> real { c * a }
pub open spec fn rdiv_s(a: real, d: real) -> real { a / d }
