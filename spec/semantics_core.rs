// ----- ghost oracle, core part: assignments and arithmetic wrappers (no dependence on the expression type) -----
pub type Env = Map<Seq<char>, real>;
// (products and quotients use the opaque wrappers rmul_s / rdiv_s of prelude/f64_layer.rs)
