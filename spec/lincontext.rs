// ----- ghost oracle: value of a linear form (DESIGN §4 linear side) -----
// sum over the first n keys of  coeff(key) * env[key]
pub open spec fn msum(keys: Seq<Seq<char>>, m: Map<Seq<char>, F64>, env: Env, n: int) -> real
    decreases n,
{
    if n <= 0 || n > keys.len() { 0real } else { msum(keys, m, env, n - 1) + rv(m[keys[n - 1]]) * env[keys[n - 1]] }
}
pub open spec fn lc_eval(lc: LinearizationContext, env: Env) -> real {
    rv(lc.current_rhs) + msum(lc.current_vars.keys(), lc.current_vars.map(), env, lc.current_vars.keys().len() as int)
}
// every coefficient and the constant are finite numbers
pub open spec fn lc_fin(lc: LinearizationContext) -> bool {
    &&& lc.current_vars.wf()
    &&& fv(lc.current_rhs) is Fin
    &&& forall|k: Seq<char>| lc.current_vars.has(k) ==> fv(#[trigger] lc.current_vars.map()[k]) is Fin
}
// all numeric literals of an expression are finite (the precondition under which C08's "finite coefficients" holds)
pub open spec fn exp_fin(e: Exp) -> bool
    decreases e,
{
    match e {
        Exp::Number(v) => fv(v) is Fin,
        Exp::Variable(_) => true,
        Exp::Abs(i) | Exp::Not(i) | Exp::UnOp(_, i) => exp_fin(*i),
        Exp::Min(es) | Exp::Max(es) | Exp::And(es) | Exp::Or(es) => forall|i: int| 0 <= i < es@.len() ==> exp_fin(#[trigger] es@[i]),
        Exp::Xor(a, b) | Exp::Implies(a, b) | Exp::Iff(a, b) | Exp::BinOp(_, a, b) => exp_fin(*a) && exp_fin(*b),
    }
}
