// ----- ghost oracle: value of a linear form (DESIGN §4 linear side) -----
// sum over the first n keys of  coeff(key) * env[key]
pub open spec fn msum(keys: Seq<Seq<char>>, m: Map<Seq<char>, F64>, env: Env, n: int) -> real
    decreases n,
{
    if n <= 0 || n > keys.len() { 0real } else { msum(keys, m, env, n - 1) + rmul_s(rv(m[keys[n - 1]]), env[keys[n - 1]]) }
}
pub open spec fn lc_eval(lc: LinearizationContext, env: Env) -> real {
    rv(lc.current_rhs) + msum(lc.current_vars.keys(), lc.current_vars.map(), env, lc.current_vars.keys().len() as int)
}
// every coefficient and the constant are finite numbers
pub open spec fn lc_fin(lc: LinearizationContext) -> bool {
    &&& lc.current_vars.wf()
    &&& fv(lc.current_rhs) is Fin
    &&& forall|k: Seq<char>| lc.current_vars.has(k) ==> fv(#[trigger] lc.current_vars.map()[k]) is Fin
}
// ---- lemmas about msum (pure ghost facts about sums over an insertion-ordered map) ----
// msum only looks at the first n keys and at the map values of those keys
pub proof fn lemma_msum_ext(k1: Seq<Seq<char>>, m1: Map<Seq<char>, F64>, k2: Seq<Seq<char>>, m2: Map<Seq<char>, F64>, env: Env, n: int)
    requires 0 <= n <= k1.len(), n <= k2.len(),
        forall|j: int| 0 <= j < n ==> k1[j] == k2[j] && rv(m1[k1[j]]) == rv(m2[k2[j]]),
    ensures msum(k1, m1, env, n) == msum(k2, m2, env, n),
    decreases n,
{
    if n > 0 { lemma_msum_ext(k1, m1, k2, m2, env, n - 1); }
}
// changing the value of ONE key (at position p) changes the sum by the difference of that term
pub proof fn lemma_msum_update(keys: Seq<Seq<char>>, m: Map<Seq<char>, F64>, p: int, v: F64, env: Env, n: int)
    requires keys.no_duplicates(), 0 <= p < keys.len(), 0 <= n <= keys.len(),
    ensures msum(keys, m.insert(keys[p], v), env, n) == msum(keys, m, env, n) + (if p < n { rmul_s(rv(v), env[keys[p]]) - rmul_s(rv(m[keys[p]]), env[keys[p]]) } else { 0real }),
    decreases n,
{
    if n > 0 {
        lemma_msum_update(keys, m, p, v, env, n - 1);
        if n - 1 != p { assert(keys[n - 1] != keys[p]); }
    }
}
// appending a NEW key adds exactly its term
pub proof fn lemma_msum_push(keys: Seq<Seq<char>>, m: Map<Seq<char>, F64>, k: Seq<char>, v: F64, env: Env)
    requires !keys.contains(k),
    ensures msum(keys.push(k), m.insert(k, v), env, keys.len() as int + 1) == msum(keys, m, env, keys.len() as int) + rmul_s(rv(v), env[k]),
{
    let k2 = keys.push(k);
    assert forall|j: int| 0 <= j < keys.len() implies keys[j] == k2[j] && rv(m[keys[j]]) == rv(m.insert(k, v)[k2[j]]) by {
        assert(keys[j] != k);
    }
    lemma_msum_ext(keys, m, k2, m.insert(k, v), env, keys.len() as int);
    assert(k2[keys.len() as int] == k);
}
// scaling every coefficient of the first n keys scales the sum
pub proof fn lemma_msum_scale(keys: Seq<Seq<char>>, m1: Map<Seq<char>, F64>, m2: Map<Seq<char>, F64>, c: real, env: Env, n: int)
    requires 0 <= n <= keys.len(), forall|j: int| 0 <= j < n ==> rv(m2[keys[j]]) == rmul_s(c, rv(m1[keys[j]])),
    ensures msum(keys, m2, env, n) == rmul_s(c, msum(keys, m1, env, n)),
    decreases n,
{
    reveal(rmul_s); reveal(rdiv_s);
    if n > 0 {
        lemma_msum_scale(keys, m1, m2, c, env, n - 1);
        let a = rv(m1[keys[n - 1]]); let e = env[keys[n - 1]]; let s = msum(keys, m1, env, n - 1);
        assert((c * a) * e == c * (a * e)) by (nonlinear_arith);
        assert(c * (s + a * e) == c * s + c * (a * e)) by (nonlinear_arith);
    } else {
        assert(c * 0real == 0real) by (nonlinear_arith);
    }
}
pub proof fn lemma_msum_div(keys: Seq<Seq<char>>, m1: Map<Seq<char>, F64>, m2: Map<Seq<char>, F64>, d: real, env: Env, n: int)
    requires d != 0real, 0 <= n <= keys.len(), forall|j: int| 0 <= j < n ==> rv(m2[keys[j]]) == rdiv_s(rv(m1[keys[j]]), d),
    ensures msum(keys, m2, env, n) == rdiv_s(msum(keys, m1, env, n), d),
    decreases n,
{
    reveal(rmul_s); reveal(rdiv_s);
    if n > 0 {
        lemma_msum_div(keys, m1, m2, d, env, n - 1);
        let a = rv(m1[keys[n - 1]]); let e = env[keys[n - 1]]; let s = msum(keys, m1, env, n - 1);
        assert((a / d) * e == (a * e) / d) by (nonlinear_arith) requires d != 0real;
        assert((s + a * e) / d == s / d + (a * e) / d) by (nonlinear_arith) requires d != 0real;
    } else {
        assert(0real / d == 0real) by (nonlinear_arith) requires d != 0real;
    }
}
pub proof fn lemma_distrib(a: real, b: real, x: real) ensures rmul_s(a + b, x) == rmul_s(a, x) + rmul_s(b, x), rmul_s(-a, x) == -rmul_s(a, x)
{
    reveal(rmul_s); reveal(rdiv_s);
    assert((a + b) * x == a * x + b * x) by (nonlinear_arith);
    assert((-a) * x == -(a * x)) by (nonlinear_arith);
}
pub proof fn lemma_mul_comm_lc(x: real, y: real) ensures x * y == y * x, rmul_s(x, y) == rmul_s(y, x) { reveal(rmul_s); reveal(rdiv_s); assert(x * y == y * x) by (nonlinear_arith); }
pub proof fn lemma_mul_sum(c: real, a: real, b: real) ensures rmul_s(c, a + b) == rmul_s(a, c) + rmul_s(c, b)
{ reveal(rmul_s); assert(c * (a + b) == a * c + c * b) by (nonlinear_arith); }
pub proof fn lemma_div_sum(a: real, b: real, d: real) requires d != 0real ensures rdiv_s(a + b, d) == rdiv_s(a, d) + rdiv_s(b, d)
{ reveal(rdiv_s); assert((a + b) / d == a / d + b / d) by (nonlinear_arith) requires d != 0real; }
