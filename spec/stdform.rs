// ----- ghost oracle: standard form rows (DESIGN §5 C13) -----
// value of the row  coef . x  where x may be LONGER than coef (missing coefficients are zero)
pub open spec fn pdot(coef: Seq<F64>, x: Seq<real>) -> real
    decreases coef.len()
{
    if coef.len() == 0 || x.len() < coef.len() { 0real } else { pdot(coef.drop_last(), x) + rv(coef.last()) * x[coef.len() - 1] }
}
pub open spec fn cmp_holds(c: Comparison, l: real, r: real) -> bool {
    match c {
        Comparison::LessOrEqual | Comparison::Less => l <= r,
        Comparison::GreaterOrEqual | Comparison::Greater => l >= r,
        Comparison::Equal => l == r,
    }
}
pub proof fn lemma_pdot_neg(a: Seq<F64>, b: Seq<F64>, x: Seq<real>)
    requires a.len() == b.len(), x.len() >= a.len(), forall|j: int| 0 <= j < a.len() ==> rv(#[trigger] b[j]) == -rv(a[j]),
    ensures pdot(b, x) == -pdot(a, x),
    decreases a.len(),
{
    reveal(rmul_s); reveal(rdiv_s);
    if a.len() > 0 {
        lemma_pdot_neg(a.drop_last(), b.drop_last(), x);
        assert(rv(b.last()) == -rv(a.last()));
        assert((-rv(a.last())) * x[a.len() - 1] == -(rv(a.last()) * x[a.len() - 1])) by (nonlinear_arith);
    }
}
// padding with zeros and appending one more coefficient k at column n
pub proof fn lemma_pdot_pad(a: Seq<F64>, c: Seq<F64>, n: int, k: real, x: Seq<real>)
    requires a.len() <= n, c.len() == n + 1, x.len() >= n + 1,
        forall|j: int| 0 <= j < a.len() ==> rv(#[trigger] c[j]) == rv(a[j]),
        forall|j: int| a.len() <= j < n ==> rv(#[trigger] c[j]) == 0real,
        rv(c[n]) == k,
    ensures pdot(c, x) == pdot(a, x) + k * x[n],
{
    lemma_pdot_zero_tail(a, c.drop_last(), x);
    assert(c.last() == c[n]);
}
pub proof fn lemma_pdot_zero_tail(a: Seq<F64>, c: Seq<F64>, x: Seq<real>)
    requires a.len() <= c.len(), x.len() >= c.len(),
        forall|j: int| 0 <= j < a.len() ==> rv(#[trigger] c[j]) == rv(a[j]),
        forall|j: int| a.len() <= j < c.len() ==> rv(#[trigger] c[j]) == 0real,
    ensures pdot(c, x) == pdot(a, x),
    decreases c.len() - a.len(), c.len(),
{
    reveal(rmul_s); reveal(rdiv_s);
    if c.len() == a.len() {
        lemma_pdot_ext(a, c, x);
    } else {
        lemma_pdot_zero_tail(a, c.drop_last(), x);
        assert(rv(c.last()) == 0real);
        assert(0real * x[c.len() - 1] == 0real) by (nonlinear_arith);
    }
}
pub proof fn lemma_pdot_ext(a: Seq<F64>, c: Seq<F64>, x: Seq<real>)
    requires a.len() == c.len(), forall|j: int| 0 <= j < a.len() ==> rv(#[trigger] c[j]) == rv(a[j]),
    ensures pdot(c, x) == pdot(a, x),
    decreases a.len(),
{
    if a.len() > 0 && x.len() >= a.len() {
        lemma_pdot_ext(a.drop_last(), c.drop_last(), x);
        assert(rv(c.last()) == rv(a.last()));
    }
}
