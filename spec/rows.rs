// ----- ghost meaning of an emitted row (MidLinearConstraint): sum(coef_k * env[k]) cmp rhs -----
pub open spec fn row_lhs(r: MidLinearConstraint, env: Env) -> real { msum(r.lhs.keys(), r.lhs.map(), env, r.lhs.keys().len() as int) }
pub open spec fn row_holds(r: MidLinearConstraint, env: Env) -> bool { cmp_sem(r.comparison, row_lhs(r, env), rv(r.rhs)) }
pub open spec fn row_fin(r: MidLinearConstraint) -> bool {
    &&& r.lhs.wf()
    &&& fv(r.rhs) is Fin
    &&& forall|k: Seq<char>| r.lhs.has(k) ==> fv(#[trigger] r.lhs.map()[k]) is Fin
}
