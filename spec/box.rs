// ----- ghost view of the derived range box (BoundsAnalyzer) -----
// env lies in the derived range box
pub open spec fn box_ok(b: BoundsAnalyzer, env: Env) -> bool {
    forall|k: Seq<char>| #[trigger] b.variable_bounds.has(k) ==> contains(b.variable_bounds.map()[k], env[k])
}
pub open spec fn box_wf(b: BoundsAnalyzer) -> bool {
    &&& b.variable_bounds.wf()
    &&& forall|k: Seq<char>| #[trigger] b.variable_bounds.has(k) ==> wf(b.variable_bounds.map()[k])
}
