// ----- ghost facts about min / max folds of expression lists (C10: simplify's min / max arms) -----
// min (is_min) or max of the first n numbers of a list (n >= 1)
pub open spec fn vfold(vals: Seq<F64>, is_min: bool, n: int) -> real
    decreases n
{
    if n <= 1 { rv(vals[0]) } else if is_min { rmin(vfold(vals, is_min, n - 1), rv(vals[n - 1])) } else { rmax(vfold(vals, is_min, n - 1), rv(vals[n - 1])) }
}
// a defined fold has defined prefixes and operands
pub proof fn lemma_sfold_prefix(es: Seq<Exp>, env: Env, is_min: bool, n: int, i: int)
    requires 1 <= i <= n <= es.len(), sem_fold(es, env, is_min, n) is Some
    ensures sem_fold(es, env, is_min, i) is Some, sem(es[i - 1], env) is Some
    decreases n
{ if i < n { lemma_sfold_prefix(es, env, is_min, n - 1, i); } }
// two lists whose operands agree wherever the second is defined fold to the same value
pub proof fn lemma_sfold_agree(xs: Seq<Exp>, ys: Seq<Exp>, env: Env, is_min: bool, n: int)
    requires 0 <= n <= xs.len(), n <= ys.len(), forall|k: int| 0 <= k < n ==> (sem(#[trigger] ys[k], env) is Some ==> sem(xs[k], env) == sem(ys[k], env))
    ensures sem_fold(ys, env, is_min, n) is Some ==> sem_fold(xs, env, is_min, n) == sem_fold(ys, env, is_min, n)
    decreases n
{ if n > 0 { lemma_sfold_agree(xs, ys, env, is_min, n - 1); if sem_fold(ys, env, is_min, n) is Some && n > 1 { lemma_sfold_prefix(ys, env, is_min, n, n - 1); } } }
// a list of constants folds to the fold of the constants
pub proof fn lemma_sfold_consts(es: Seq<Exp>, vals: Seq<F64>, env: Env, is_min: bool, n: int)
    requires 1 <= n <= es.len(), n <= vals.len(), forall|k: int| 0 <= k < n ==> sem(#[trigger] es[k], env) == Some(rv(vals[k]))
    ensures sem_fold(es, env, is_min, n) == Some(vfold(vals, is_min, n))
    decreases n
{ if n > 1 { lemma_sfold_consts(es, vals, env, is_min, n - 1); } }
