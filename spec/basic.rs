// ----- ghost oracle: the basic solution of a canonical tableau (DESIGN §5 C04 / C14); needs vectors.rs, tableau.rs -----
// every basic column is the unit vector of its row
pub open spec fn canonical(a: Seq<Vec<F64>>, basis: Seq<usize>) -> bool {
    basis.len() == a.len() && forall|k: int| 0 <= k < basis.len() ==> unit_col(a, #[trigger] basis[k] as int, k)
}
// x is the basic solution: the basic variable of row k holds b[k], every other variable holds 0
pub open spec fn basic_solution(basis: Seq<usize>, b: Seq<F64>, x: Seq<real>) -> bool {
    &&& forall|k: int| 0 <= k < basis.len() ==> x[#[trigger] basis[k] as int] == rv(b[k])
    &&& forall|j: int| 0 <= j < x.len() && (forall|k: int| 0 <= k < basis.len() ==> #[trigger] basis[k] != j) ==> #[trigger] x[j] == 0real
}
// value of row i over the first p columns at the basic solution: b[i] once the basic column of row i is among them, 0 before
pub proof fn lemma_basic_row(a: Seq<Vec<F64>>, b: Seq<F64>, basis: Seq<usize>, x: Seq<real>, i: int, p: int)
    requires 0 <= i < a.len(), b.len() == a.len(), canonical(a, basis), basic_solution(basis, b, x), 0 <= p <= x.len(), x.len() == a[i]@.len(),
        forall|k: int| 0 <= k < basis.len() ==> (#[trigger] basis[k]) < x.len(),
    ensures dot(rvs(a[i]@).take(p), x.take(p)) == (if (basis[i] as int) < p { rv(b[i]) } else { 0real }),
    decreases p,
{
    reveal(rmul_s); reveal(rdiv_s);
    let r = rvs(a[i]@);
    if p == 0 {
    } else {
        lemma_basic_row(a, b, basis, x, i, p - 1);
        assert(r.take(p).drop_last() =~= r.take(p - 1));
        assert(x.take(p).drop_last() =~= x.take(p - 1));
        let j = p - 1;
        assert(r.take(p).last() == rv(a[i]@[j]));
        assert(x.take(p).last() == x[j]);
        if exists|k: int| 0 <= k < basis.len() && basis[k] == j {
            let k = choose|k: int| 0 <= k < basis.len() && basis[k] == j;
            assert(unit_col(a, basis[k] as int, k));
            assert(rv(a[i][j]) == (if i == k { 1real } else { 0real }));
            assert(x[basis[k] as int] == rv(b[k]));
            if i == k { assert(1real * rv(b[k]) == rv(b[k])) by (nonlinear_arith); }
            else {
                assert(0real * x[j] == 0real) by (nonlinear_arith);
                assert(basis[i] != j) by { assert(unit_col(a, basis[i] as int, i)); assert(rv(a[i][basis[i] as int]) == 1real); }
            }
        } else {
            assert(x[j] == 0real);
            assert(rv(a[i]@[j]) * 0real == 0real) by (nonlinear_arith);
            assert(basis[i] != j);
        }
    }
}
// THE BASIC SOLUTION SOLVES THE SYSTEM of a canonical tableau
pub proof fn lemma_basic_sat(a: Seq<Vec<F64>>, b: Seq<F64>, basis: Seq<usize>, x: Seq<real>)
    requires b.len() == a.len(), canonical(a, basis), basic_solution(basis, b, x), rect(a, x.len() as int),
        forall|k: int| 0 <= k < basis.len() ==> (#[trigger] basis[k]) < x.len(),
    ensures sat(a, b, x),
{
    assert forall|i: int| 0 <= i < a.len() implies dot(rvs((#[trigger] a[i])@), x) == rv(b[i]) by {
        lemma_basic_row(a, b, basis, x, i, x.len() as int);
        assert(rvs(a[i]@).take(x.len() as int) =~= rvs(a[i]@));
        assert(x.take(x.len() as int) =~= x);
    }
}
