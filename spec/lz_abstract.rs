// ----- abstract ghost view of the lowering context (used by the arm units; made concrete and its axioms PROVED in U01.lz) -----
// lz_ok(l, env): env satisfies everything the context currently demands (derived range box, queued constraints, domains of declared variables)
pub uninterp spec fn lz_ok(l: Linearizer, env: Env) -> bool;
// lz_ext(a, b): b was obtained from a by declaring fresh variables and queueing more constraints only
pub uninterp spec fn lz_ext(a: Linearizer, b: Linearizer) -> bool;
pub broadcast axiom fn ax_lz_ext_refl(a: Linearizer) ensures #[trigger] lz_ext(a, a);
pub broadcast axiom fn ax_lz_ext_trans(a: Linearizer, b: Linearizer, c: Linearizer) requires #[trigger] lz_ext(a, b), #[trigger] lz_ext(b, c) ensures lz_ext(a, c);
pub broadcast axiom fn ax_lz_ext_mono(a: Linearizer, b: Linearizer, env: Env) requires #[trigger] lz_ext(a, b), #[trigger] lz_ok(b, env) ensures lz_ok(a, env);
pub broadcast group lz { ax_lz_ext_refl, ax_lz_ext_trans, ax_lz_ext_mono }
