// ----- ghost oracle: what it means that the problem handed to microlp IS the linear model, and that a solution is read back faithfully (DESIGN §5 C04) -----
pub open spec fn cmp_op(c: Comparison) -> ComparisonOp {
    match c { Comparison::LessOrEqual | Comparison::Less => ComparisonOp::Le, Comparison::GreaterOrEqual | Comparison::Greater => ComparisonOp::Ge, Comparison::Equal => ComparisonOp::Eq }
}
// column k of the library problem is variable k of the model: same objective coefficient, same bounds, same kind
pub open spec fn var_matches(g: GVar, coef: F64, t: VariableType) -> bool {
    g.coef == coef && match t {
        VariableType::Boolean => g.kind is Bin && g.lo == Ext::Fin(0real) && g.hi == Ext::Fin(1real),
        VariableType::IntegerRange(a, b) => g.kind is Int && g.lo == Ext::Fin(a as real) && g.hi == Ext::Fin(b as real),
        VariableType::Real(a, b) | VariableType::NonNegativeReal(a, b) => g.kind is Cont && g.lo == fv(a) && g.hi == fv(b),
    }
}
// row j of the library problem is row j of the model: term i is (column i, coefficient i), same relation, same right-hand side
pub open spec fn row_matches(g: GRow, c: LinearConstraint, n: int) -> bool {
    &&& g.rhs == c.rhs && g.op == cmp_op(c.constraint_type) && !(c.constraint_type is Less) && !(c.constraint_type is Greater)
    &&& g.terms.len() == n
    &&& forall|i: int| 0 <= i < n ==> #[trigger] g.terms[i] == (i, c.coefficients@[i])
}
pub open spec fn built(vars: Seq<GVar>, rows: Seq<GRow>, dir: OptimizationDirection, lp: LinearModel) -> bool {
    &&& vars.len() == lp.variables@.len() && lp.objective@.len() == lp.variables@.len()
    &&& forall|i: int| 0 <= i < vars.len() ==> var_matches(#[trigger] vars[i], lp.objective@[i], lm_type(lp, i))
    &&& rows.len() == lp.constraints@.len()
    &&& forall|j: int| 0 <= j < rows.len() ==> row_matches(#[trigger] rows[j], lp.constraints@[j], lp.variables@.len() as int)
    &&& (dir == OptimizationDirection::Maximize <==> lp.optimization_type is Max)
}
// the value reported for a variable is the library's value of its column, in the representation of its domain
pub open spec fn value_matches(v: MILPValue, x: F64, t: VariableType) -> bool {
    match t {
        VariableType::Real(_, _) | VariableType::NonNegativeReal(_, _) => v == MILPValue::Real(x),
        VariableType::IntegerRange(_, _) => v matches MILPValue::Int(k) && (k as int) as real == rv(x),
        VariableType::Boolean => v matches MILPValue::Bool(b) && b == (rv(x) != 0real),
    }
}
pub open spec fn readback(sol: LpSolution<MILPValue>, s: Solution, lp: LinearModel) -> bool {
    &&& sol.assignment@.len() == lp.variables@.len()
    &&& forall|i: int| 0 <= i < sol.assignment@.len() ==> (#[trigger] sol.assignment@[i]).name@ == lp.variables@[i]@ && value_matches(sol.assignment@[i].value, s.vals()[i], lm_type(lp, i))
    &&& fv(sol.value) == ext_add(fv(s.obj()), fv(lp.objective_offset))
}
// an integer column of a sound solution holds an exact i32
pub proof fn lemma_int_value(s: Solution, i: int)
    requires s.sound(), 0 <= i < s.vars().len(), s.vars()[i].kind is Int,
        s.vars()[i].lo matches Ext::Fin(a) && a >= -2147483648real, s.vars()[i].hi matches Ext::Fin(b) && b <= 2147483647real,
    ensures fv(s.vals()[i]) is Fin, -2147483648real <= rv(s.vals()[i]) <= 2147483647real, rv(s.vals()[i]) == (rfloor(rv(s.vals()[i])) as real),
{
    broadcast use ax_rfloor;
    assert(gvar_ok(s.vars()[i], s.xs()[i]));
    let v = rv(s.vals()[i]);
    assert(s.xs()[i] == v);
    let k = choose|k: int| v == #[trigger] i2r_m(k);
    assert(rfloor(v) == k);
}
