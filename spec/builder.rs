// ----- ghost oracle for the fluent builder (C16): the meaning of an index-based expression tree -----
// IEnv: value of the variable with handle index i
pub type IEnv = spec_fn(int) -> real;
pub open spec fn esem(e: Expr, ienv: IEnv) -> Option<real>
    decreases e,
{
    match e {
        Expr::Number(v) => if fv(v) is Fin { Some(rv(v)) } else { None },
        Expr::Variable(i) => Some(ienv(i as int)),
        Expr::Abs(inner) => match esem(*inner, ienv) { Some(x) => Some(sem_abs(x)), None => None },
        Expr::Min(es) => esem_fold(es@, ienv, true, es@.len() as int),
        Expr::Max(es) => esem_fold(es@, ienv, false, es@.len() as int),
        Expr::And(es) => esem_all(es@, ienv, true, es@.len() as int),
        Expr::Or(es) => esem_all(es@, ienv, false, es@.len() as int),
        Expr::Not(inner) => match esem(*inner, ienv) { Some(x) => Some(b2r(!truthy(x))), None => None },
        Expr::Xor(a, b) => match (esem(*a, ienv), esem(*b, ienv)) { (Some(x), Some(y)) => sem_binop(BinOp::Xor, x, y), _ => None },
        Expr::Implies(a, b) => match (esem(*a, ienv), esem(*b, ienv)) { (Some(x), Some(y)) => sem_binop(BinOp::Implies, x, y), _ => None },
        Expr::Iff(a, b) => match (esem(*a, ienv), esem(*b, ienv)) { (Some(x), Some(y)) => sem_binop(BinOp::Iff, x, y), _ => None },
        Expr::BinOp(op, a, b) => match (esem(*a, ienv), esem(*b, ienv)) { (Some(x), Some(y)) => sem_binop(op, x, y), _ => None },
        Expr::UnOp(op, inner) => match esem(*inner, ienv) {
            Some(x) => match op { UnOp::Neg => Some(-x), UnOp::Not => Some(b2r(!truthy(x))) },
            None => None,
        },
    }
}
pub open spec fn esem_fold(es: Seq<Expr>, ienv: IEnv, is_min: bool, n: int) -> Option<real>
    decreases es, n,
{
    if n <= 0 || n > es.len() { None }
    else {
        match esem(es[n - 1], ienv) {
            None => None,
            Some(x) => if n == 1 { Some(x) } else {
                match esem_fold(es, ienv, is_min, n - 1) { None => None, Some(y) => Some(if is_min { rmin(y, x) } else { rmax(y, x) }) }
            },
        }
    }
}
pub open spec fn esem_all(es: Seq<Expr>, ienv: IEnv, is_and: bool, n: int) -> Option<real>
    decreases es, n,
{
    if n <= 0 || n > es.len() { Some(b2r(is_and)) }
    else {
        match (esem(es[n - 1], ienv), esem_all(es, ienv, is_and, n - 1)) {
            (Some(x), Some(y)) => Some(b2r(if is_and { truthy(y) && truthy(x) } else { truthy(y) || truthy(x) })),
            _ => None,
        }
    }
}
// every variable index of the tree is a handle of this builder
pub open spec fn idx_ok(e: Expr, n: int) -> bool
    decreases e,
{
    match e {
        Expr::Number(_) => true,
        Expr::Variable(i) => (i as int) < n,
        Expr::Abs(a) | Expr::Not(a) | Expr::UnOp(_, a) => idx_ok(*a, n),
        Expr::Min(es) => forall|k: int| 0 <= k < es@.len() ==> idx_ok(#[trigger] es@[k], n),
        Expr::Max(es) => forall|k: int| 0 <= k < es@.len() ==> idx_ok(#[trigger] es@[k], n),
        Expr::And(es) => forall|k: int| 0 <= k < es@.len() ==> idx_ok(#[trigger] es@[k], n),
        Expr::Or(es) => forall|k: int| 0 <= k < es@.len() ==> idx_ok(#[trigger] es@[k], n),
        Expr::Xor(a, b) | Expr::Implies(a, b) | Expr::Iff(a, b) | Expr::BinOp(_, a, b) => idx_ok(*a, n) && idx_ok(*b, n),
    }
}
// the index environment induced by a name environment: handle i -> value of the variable named names[i]
pub open spec fn ienv_of(env: Env, names: Seq<String>) -> IEnv { |i: int| env[names[i]@] }
// element-wise agreement lifts to the folds
pub proof fn lemma_fold_agree(xs: Seq<Exp>, es: Seq<Expr>, env: Env, ienv: IEnv, is_min: bool, n: int)
    requires xs.len() == es.len(), forall|k: int| 0 <= k < es.len() ==> sem(#[trigger] xs[k], env) == esem(es[k], ienv),
    ensures sem_fold(xs, env, is_min, n) == esem_fold(es, ienv, is_min, n),
    decreases n,
{
    if n <= 0 || n > es.len() { } else { lemma_fold_agree(xs, es, env, ienv, is_min, n - 1); }
}
pub proof fn lemma_all_agree(xs: Seq<Exp>, es: Seq<Expr>, env: Env, ienv: IEnv, is_and: bool, n: int)
    requires xs.len() == es.len(), forall|k: int| 0 <= k < es.len() ==> sem(#[trigger] xs[k], env) == esem(es[k], ienv),
    ensures sem_all(xs, env, is_and, n) == esem_all(es, ienv, is_and, n),
    decreases n,
{
    if n <= 0 || n > es.len() { } else { lemma_all_agree(xs, es, env, ienv, is_and, n - 1); }
}
pub proof fn lemma_idx_ok(e: Expr, n: int)
    requires idx_ok(e, n),
    ensures
        e matches Expr::Min(es) ==> (forall|k: int| 0 <= k < es@.len() ==> idx_ok(#[trigger] es@[k], n)),
        e matches Expr::Max(es) ==> (forall|k: int| 0 <= k < es@.len() ==> idx_ok(#[trigger] es@[k], n)),
        e matches Expr::And(es) ==> (forall|k: int| 0 <= k < es@.len() ==> idx_ok(#[trigger] es@[k], n)),
        e matches Expr::Or(es) ==> (forall|k: int| 0 <= k < es@.len() ==> idx_ok(#[trigger] es@[k], n)),
{
    match e {
        Expr::Min(es) => { assert forall|k: int| 0 <= k < es@.len() implies idx_ok(#[trigger] es@[k], n) by { } }
        Expr::Max(es) => { assert forall|k: int| 0 <= k < es@.len() implies idx_ok(#[trigger] es@[k], n) by { } }
        Expr::And(es) => { assert forall|k: int| 0 <= k < es@.len() implies idx_ok(#[trigger] es@[k], n) by { } }
        Expr::Or(es) => { assert forall|k: int| 0 <= k < es@.len() implies idx_ok(#[trigger] es@[k], n) by { } }
        _ => {}
    }
}
// one-step unfoldings of sem / esem for the variants not covered by semx2 (kept here so that other units are not affected)
pub broadcast proof fn lemma_sem_abs_b(a: Box<Exp>, env: Env)
    ensures #[trigger] sem(Exp::Abs(a), env) == (match sem(*a, env) { Some(x) => Some(sem_abs(x)), None => None::<real> }) {}
pub broadcast proof fn lemma_sem_not_b(a: Box<Exp>, env: Env)
    ensures #[trigger] sem(Exp::Not(a), env) == (match sem(*a, env) { Some(x) => Some(b2r(!truthy(x))), None => None::<real> }) {}
pub broadcast proof fn lemma_sem_xor_b(a: Box<Exp>, b: Box<Exp>, env: Env)
    ensures #[trigger] sem(Exp::Xor(a, b), env) == (match (sem(*a, env), sem(*b, env)) { (Some(x), Some(y)) => sem_binop(BinOp::Xor, x, y), _ => None::<real> }) {}
pub broadcast proof fn lemma_sem_implies_b(a: Box<Exp>, b: Box<Exp>, env: Env)
    ensures #[trigger] sem(Exp::Implies(a, b), env) == (match (sem(*a, env), sem(*b, env)) { (Some(x), Some(y)) => sem_binop(BinOp::Implies, x, y), _ => None::<real> }) {}
pub broadcast proof fn lemma_sem_iff_b(a: Box<Exp>, b: Box<Exp>, env: Env)
    ensures #[trigger] sem(Exp::Iff(a, b), env) == (match (sem(*a, env), sem(*b, env)) { (Some(x), Some(y)) => sem_binop(BinOp::Iff, x, y), _ => None::<real> }) {}
pub broadcast proof fn lemma_esem_number(v: F64, ienv: IEnv)
    ensures #[trigger] esem(Expr::Number(v), ienv) == (if fv(v) is Fin { Some(rv(v)) } else { None::<real> }) {}
pub broadcast proof fn lemma_esem_variable(i: usize, ienv: IEnv)
    ensures #[trigger] esem(Expr::Variable(i), ienv) == Some(ienv(i as int)) {}
pub broadcast proof fn lemma_esem_abs(a: Box<Expr>, ienv: IEnv)
    ensures #[trigger] esem(Expr::Abs(a), ienv) == (match esem(*a, ienv) { Some(x) => Some(sem_abs(x)), None => None::<real> }) {}
pub broadcast proof fn lemma_esem_not(a: Box<Expr>, ienv: IEnv)
    ensures #[trigger] esem(Expr::Not(a), ienv) == (match esem(*a, ienv) { Some(x) => Some(b2r(!truthy(x))), None => None::<real> }) {}
pub broadcast proof fn lemma_esem_xor(a: Box<Expr>, b: Box<Expr>, ienv: IEnv)
    ensures #[trigger] esem(Expr::Xor(a, b), ienv) == (match (esem(*a, ienv), esem(*b, ienv)) { (Some(x), Some(y)) => sem_binop(BinOp::Xor, x, y), _ => None::<real> }) {}
pub broadcast proof fn lemma_esem_implies(a: Box<Expr>, b: Box<Expr>, ienv: IEnv)
    ensures #[trigger] esem(Expr::Implies(a, b), ienv) == (match (esem(*a, ienv), esem(*b, ienv)) { (Some(x), Some(y)) => sem_binop(BinOp::Implies, x, y), _ => None::<real> }) {}
pub broadcast proof fn lemma_esem_iff(a: Box<Expr>, b: Box<Expr>, ienv: IEnv)
    ensures #[trigger] esem(Expr::Iff(a, b), ienv) == (match (esem(*a, ienv), esem(*b, ienv)) { (Some(x), Some(y)) => sem_binop(BinOp::Iff, x, y), _ => None::<real> }) {}
pub broadcast proof fn lemma_esem_binop(op: BinOp, a: Box<Expr>, b: Box<Expr>, ienv: IEnv)
    ensures #[trigger] esem(Expr::BinOp(op, a, b), ienv) == (match (esem(*a, ienv), esem(*b, ienv)) { (Some(x), Some(y)) => sem_binop(op, x, y), _ => None::<real> }) {}
pub broadcast proof fn lemma_esem_unop(op: UnOp, a: Box<Expr>, ienv: IEnv)
    ensures #[trigger] esem(Expr::UnOp(op, a), ienv) == (match esem(*a, ienv) { Some(x) => (match op { UnOp::Neg => Some(-x), UnOp::Not => Some(b2r(!truthy(x))) }), None => None::<real> }) {}
pub broadcast group semb { lemma_sem_abs_b, lemma_sem_not_b, lemma_sem_xor_b, lemma_sem_implies_b, lemma_sem_iff_b,
    lemma_esem_number, lemma_esem_variable, lemma_esem_abs, lemma_esem_not, lemma_esem_xor, lemma_esem_implies, lemma_esem_iff, lemma_esem_binop, lemma_esem_unop }
// prefixes of a defined fold / conjunction are defined, and so is every operand
pub proof fn lemma_efold_prefix(es: Seq<Expr>, ienv: IEnv, is_min: bool, n: int, i: int)
    requires 1 <= i <= n <= es.len(), esem_fold(es, ienv, is_min, n) is Some
    ensures esem_fold(es, ienv, is_min, i) is Some, esem(es[i - 1], ienv) is Some
    decreases n
{ if i < n { lemma_efold_prefix(es, ienv, is_min, n - 1, i); } }
pub proof fn lemma_eall_prefix(es: Seq<Expr>, ienv: IEnv, is_and: bool, n: int, i: int)
    requires 0 <= i <= n <= es.len(), esem_all(es, ienv, is_and, n) is Some
    ensures esem_all(es, ienv, is_and, i) is Some, i >= 1 ==> esem(es[i - 1], ienv) is Some
    decreases n
{ if i < n { lemma_eall_prefix(es, ienv, is_and, n - 1, i); } }
pub proof fn lemma_eall_one(es: Seq<Expr>, ienv: IEnv, is_and: bool, n: int, j: int)
    requires 0 <= j < n <= es.len(), esem(es[j], ienv) matches Some(x) ==> truthy(x) != is_and
    ensures esem_all(es, ienv, is_and, n) matches Some(y) ==> truthy(y) != is_and
    decreases n
{ if n - 1 > j { lemma_eall_one(es, ienv, is_and, n - 1, j); } }
pub proof fn lemma_eall_uniform(es: Seq<Expr>, ienv: IEnv, is_and: bool, n: int)
    requires 0 <= n <= es.len(), forall|k: int| 0 <= k < n ==> (esem(#[trigger] es[k], ienv) matches Some(x) ==> truthy(x) == is_and)
    ensures esem_all(es, ienv, is_and, n) matches Some(y) ==> truthy(y) == is_and && (y == 0real || y == 1real)
    decreases n
{ if n > 0 { lemma_eall_uniform(es, ienv, is_and, n - 1); } }
pub proof fn lemma_eall_01(es: Seq<Expr>, ienv: IEnv, is_and: bool, n: int)
    requires 0 <= n <= es.len() ensures esem_all(es, ienv, is_and, n) matches Some(y) ==> (y == 0real || y == 1real)
{}
