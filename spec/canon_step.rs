// ----- ghost lemma over the contracts of Tableau::pivot and Tableau::variables_values: a pivot keeps the basis canonical (needs tableau.rs, step.rs, basic.rs) -----
pub proof fn lemma_step_canonical(o: Tableau, f: Tableau, t: int, h: int)
    requires pivoted(o, f, t, h), canonical(o.a@, o.in_basis@), 0 <= t < o.a.len(), 0 <= h < o.c.len(),
        forall|k: int| 0 <= k < o.in_basis@.len() ==> (#[trigger] o.in_basis@[k]) < o.c.len(),
    ensures canonical(f.a@, f.in_basis@), forall|k: int| 0 <= k < f.in_basis@.len() ==> (#[trigger] f.in_basis@[k]) < f.c.len(),
{
    assert forall|k: int| 0 <= k < f.in_basis@.len() implies unit_col(f.a@, #[trigger] f.in_basis@[k] as int, k) by {
        if k == t { assert(f.in_basis@[k] == h as usize); }
        else { assert(f.in_basis@[k] == o.in_basis@[k]); assert(unit_col(o.a@, o.in_basis@[k] as int, k)); }
    }
}
// the basic variables of a canonical tableau are pairwise distinct (two rows cannot both hold the 1 of the same unit column)
pub proof fn lemma_canonical_distinct(a: Seq<Vec<F64>>, basis: Seq<usize>)
    requires canonical(a, basis),
    ensures forall|k: int, l: int| 0 <= k < l < basis.len() ==> basis[k] != basis[l],
{
    assert forall|k: int, l: int| 0 <= k < l < basis.len() implies basis[k] != basis[l] by {
        if basis[k] == basis[l] {
            assert(unit_col(a, basis[k] as int, k)); assert(unit_col(a, basis[l] as int, l));
            assert(rv(a[k][basis[k] as int]) == 1real); assert(rv(a[k][basis[l] as int]) == 0real);
        }
    }
}
