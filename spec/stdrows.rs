// ----- ghost oracle: rows of a linear model over a real assignment, declared ranges (DESIGN §5 C13) -----
pub open spec fn row_holds(c: LinearConstraint, x: Seq<real>) -> bool { cmp_holds(c.constraint_type, pdot(c.coefficients@, x), rv(c.rhs)) }
pub open spec fn rows_hold_from(cs: Seq<LinearConstraint>, from: int, x: Seq<real>) -> bool {
    forall|j: int| from <= j < cs.len() ==> row_holds(#[trigger] cs[j], x)
}
pub open spec fn vtype(variables: Seq<String>, domain: SMap<DomainVariable>, i: int) -> VariableType { domain.map()[variables[i]@].as_type }
pub open spec fn real_kind(t: VariableType) -> bool { t is Real || t is NonNegativeReal }
// the type invariant of a declared range as the language front end enforces it (PreVariableType::to_variable_type rejects a
// NonNegativeReal whose minimum is below 0): ends not NaN, not (+inf, ..) / (.., -inf), and a non-negative kind starts at >= 0
pub open spec fn std_wf(t: VariableType) -> bool {
    vt_wf(t) && (t matches VariableType::NonNegativeReal(lo, _) ==> ext_le(Ext::Fin(0real), fv(lo)))
}
// the sign restriction the standard form keeps implicit: a variable that is not split stays non-negative
pub open spec fn sign_ok(variables: Seq<String>, domain: SMap<DomainVariable>, x: Seq<real>) -> bool {
    forall|i: int| 0 <= i < variables.len() ==> (vtype(variables, domain, i) is NonNegativeReal ==> #[trigger] x[i] >= 0real)
}
pub open spec fn doms_upto(variables: Seq<String>, domain: SMap<DomainVariable>, k: int, x: Seq<real>) -> bool {
    forall|i: int| 0 <= i < k ==> in_domain(vtype(variables, domain, i), #[trigger] x[i])
}
pub proof fn lemma_rows_push(cs0: Seq<LinearConstraint>, r: LinearConstraint, from: int, x: Seq<real>)
    requires from <= cs0.len(),
    ensures rows_hold_from(cs0.push(r), from, x) <==> (rows_hold_from(cs0, from, x) && row_holds(r, x)),
{
    let cs1 = cs0.push(r);
    if rows_hold_from(cs1, from, x) {
        assert forall|j: int| from <= j < cs0.len() implies row_holds(#[trigger] cs0[j], x) by { assert(cs1[j] == cs0[j]); }
        assert(cs1[cs0.len() as int] == r);
    }
    if rows_hold_from(cs0, from, x) && row_holds(r, x) {
        assert forall|j: int| from <= j < cs1.len() implies row_holds(#[trigger] cs1[j], x) by {
            if j < cs0.len() { assert(cs1[j] == cs0[j]); } else { assert(cs1[j] == r); }
        }
    }
}
// a row that is 1 at column i and 0 elsewhere evaluates to x[i]
pub proof fn lemma_unit_row(c: Seq<F64>, i: int, x: Seq<real>)
    requires 0 <= i < c.len(), x.len() >= c.len(), fv(c[i]) == Ext::Fin(1real),
        forall|j: int| 0 <= j < c.len() && j != i ==> fv(#[trigger] c[j]) == Ext::Fin(0real),
    ensures pdot(c, x) == x[i], fin_seq(c),
{
    let e = Seq::<F64>::empty();
    let t = c.take(i + 1);
    assert(pdot(e, x) == 0real);
    lemma_pdot_pad(e, t, i, 1real, x);
    lemma_pdot_zero_tail(t, c, x);
    assert forall|j: int| 0 <= j < c.len() implies fv(#[trigger] c[j]) is Fin by {}
}
// number of inequality rows among the first k rows: the slack / surplus columns handed out so far
pub open spec fn nne(cs: Seq<LinearConstraint>, k: int) -> int
    decreases k,
{
    if k <= 0 { 0 } else { nne(cs, k - 1) + (if cs[k - 1].constraint_type is Equal { 0int } else { 1int }) }
}
// the equality a row of the source stands for once its slack (<=) or surplus (>=) sits in column col
pub open spec fn slack_row_holds(c: LinearConstraint, col: int, x: Seq<real>) -> bool {
    if c.constraint_type is Equal { pdot(c.coefficients@, x) == rv(c.rhs) }
    else { pdot(c.coefficients@, x) + (if c.constraint_type is LessOrEqual { x[col] } else { -x[col] }) == rv(c.rhs) }
}
pub open spec fn strict_row(c: LinearConstraint) -> bool { c.constraint_type is Less || c.constraint_type is Greater }
pub proof fn lemma_nne_bounds(cs: Seq<LinearConstraint>, k: int)
    requires 0 <= k,
    ensures 0 <= nne(cs, k) <= k,
    decreases k,
{
    if k > 0 { lemma_nne_bounds(cs, k - 1); }
}
pub proof fn lemma_nne_mono(cs: Seq<LinearConstraint>, j: int, k: int)
    requires 0 <= j <= k,
    ensures nne(cs, j) <= nne(cs, k),
    decreases k - j,
{
    if j < k { lemma_nne_mono(cs, j, k - 1); }
}
// the domain entry of a slack / surplus / split variable: non-negative, no further bound
pub open spec fn nn_unbounded(t: VariableType) -> bool { t matches VariableType::NonNegativeReal(lo, hi) && fv(lo) == Ext::Fin(0real) && fv(hi) == Ext::PosInf }
