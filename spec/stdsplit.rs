// ----- the split of free variables: appended column pairs -----
// row c is row c0 (width n) followed, for j < k, by the pair (c0[f[j]], -c0[f[j]])
pub open spec fn split_row(c0: Seq<F64>, c: Seq<F64>, f: Seq<usize>, n: int, k: int) -> bool {
    &&& c.len() == n + 2 * k
    &&& forall|j: int| 0 <= j < n ==> #[trigger] c[j] == c0[j]
    &&& forall|j: int| 0 <= j < k ==> c[n + 2 * j] == c0[#[trigger] f[j] as int] && fv(c[n + 2 * j + 1]) == Ext::Fin(-rv(c0[f[j] as int]))
}
// what the appended pairs add to the row's value: sum over j < k of c0[f[j]] * (z[n + 2j] - z[n + 2j + 1])
pub open spec fn split_sum(c0: Seq<F64>, f: Seq<usize>, z: Seq<real>, n: int, k: int) -> real
    decreases k,
{
    if k <= 0 { 0real } else { split_sum(c0, f, z, n, k - 1) + rv(c0[f[k - 1] as int]) * (z[n + 2 * (k - 1)] - z[n + 2 * (k - 1) + 1]) }
}
pub proof fn lemma_split_row(c0: Seq<F64>, c: Seq<F64>, f: Seq<usize>, n: int, k: int, z: Seq<real>)
    requires split_row(c0, c, f, n, k), fin_seq(c0), c0.len() == n, 0 <= k <= f.len(), z.len() >= n + 2 * k,
        forall|j: int| 0 <= j < f.len() ==> (#[trigger] f[j]) < n,
    ensures pdot(c, z) == pdot(c0, z) + split_sum(c0, f, z, n, k),
    decreases k,
{
    if k == 0 {
        lemma_pdot_ext(c0, c, z);
    } else {
        let c1 = c.drop_last();
        let c2 = c1.drop_last();
        assert(split_row(c0, c2, f, n, k - 1)) by {
            assert forall|j: int| 0 <= j < k - 1 implies c2[n + 2 * j] == c0[#[trigger] f[j] as int] && fv(c2[n + 2 * j + 1]) == Ext::Fin(-rv(c0[f[j] as int])) by {
                assert(c2[n + 2 * j] == c[n + 2 * j]); assert(c2[n + 2 * j + 1] == c[n + 2 * j + 1]);
            }
        }
        lemma_split_row(c0, c2, f, n, k - 1, z);
        let a = rv(c0[f[k - 1] as int]);
        assert(fv(c0[f[k - 1] as int]) is Fin);
        assert(c.last() == c[n + 2 * (k - 1) + 1]);
        assert(c1.last() == c[n + 2 * (k - 1)]);
        assert(rv(c.last()) == -a);
        assert(rv(c1.last()) == a);
        let z1 = z[n + 2 * (k - 1)];
        let z2 = z[n + 2 * (k - 1) + 1];
        assert(a * z1 + (-a) * z2 == a * (z1 - z2)) by (nonlinear_arith);
        assert(pdot(c1, z) == pdot(c2, z) + rv(c1.last()) * z[c1.len() - 1]);
        assert(pdot(c, z) == pdot(c1, z) + rv(c.last()) * z[c.len() - 1]);
    }
}
