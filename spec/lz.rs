// ----- ghost view of the lowering context `Linearizer` (DESIGN §5 C01): what an assignment must satisfy -----
// structural invariant of the context
#[verifier::opaque]
pub open spec fn lz_inv(l: Linearizer) -> bool {
    &&& l.domain.wf() && box_wf(l.bounds)
    &&& forall|k: Seq<char>| #[trigger] l.domain.has(k) <==> #[trigger] l.bounds.variable_bounds.has(k)
    &&& forall|k: Seq<char>| #[trigger] l.domain.has(k) ==> vt_wf(l.domain.map()[k].as_type)
    &&& forall|c: Constraint| #[trigger] l.constraints@.contains(c) ==> c_fin(c)
    &&& forall|r: MidLinearConstraint| #[trigger] l.linear_constraints@.contains(r) ==> row_fin(r)
}
// env satisfies everything the context currently demands
#[verifier::opaque]
pub open spec fn lz_ok(l: Linearizer, env: Env) -> bool {
    &&& forall|c: Constraint| #[trigger] l.constraints@.contains(c) ==> c_holds_w(c, env)
    &&& forall|r: MidLinearConstraint| #[trigger] l.linear_constraints@.contains(r) ==> row_holds(r, env)
    &&& forall|k: Seq<char>| #[trigger] l.domain.has(k) ==> in_domain(l.domain.map()[k].as_type, env[k])
    &&& box_ok(l.bounds, env)
}
// b was obtained from a by queueing more constraints and declaring fresh variables only (queue order is irrelevant to the meaning)
#[verifier::opaque]
pub open spec fn lz_ext(a: Linearizer, b: Linearizer) -> bool {
    &&& forall|c: Constraint| #[trigger] a.constraints@.contains(c) ==> b.constraints@.contains(c)
    &&& forall|r: MidLinearConstraint| #[trigger] a.linear_constraints@.contains(r) ==> b.linear_constraints@.contains(r)
    &&& forall|k: Seq<char>| #[trigger] a.domain.has(k) ==> b.domain.has(k) && b.domain.map()[k].as_type == a.domain.map()[k].as_type
    &&& forall|k: Seq<char>| #[trigger] a.bounds.variable_bounds.has(k) ==> b.bounds.variable_bounds.has(k) && b.bounds.variable_bounds.map()[k] == a.bounds.variable_bounds.map()[k]
}
pub broadcast proof fn lemma_lz_ext_refl(a: Linearizer) ensures #[trigger] lz_ext(a, a) { reveal(lz_ext); }
pub broadcast proof fn lemma_lz_ext_trans(a: Linearizer, b: Linearizer, c: Linearizer)
    requires #[trigger] lz_ext(a, b), #[trigger] lz_ext(b, c) ensures lz_ext(a, c)
{
    reveal(lz_ext);
    assert forall|x: Constraint| #[trigger] a.constraints@.contains(x) implies c.constraints@.contains(x) by { assert(b.constraints@.contains(x)); }
    assert forall|x: MidLinearConstraint| #[trigger] a.linear_constraints@.contains(x) implies c.linear_constraints@.contains(x) by { assert(b.linear_constraints@.contains(x)); }
    assert forall|k: Seq<char>| #[trigger] a.domain.has(k) implies c.domain.has(k) && c.domain.map()[k].as_type == a.domain.map()[k].as_type by {
        assert(b.domain.has(k) && b.domain.map()[k].as_type == a.domain.map()[k].as_type);
        assert(c.domain.has(k) && c.domain.map()[k].as_type == b.domain.map()[k].as_type);
    }
    assert forall|k: Seq<char>| #[trigger] a.bounds.variable_bounds.has(k) implies c.bounds.variable_bounds.has(k) && c.bounds.variable_bounds.map()[k] == a.bounds.variable_bounds.map()[k] by {
        assert(b.bounds.variable_bounds.has(k) && b.bounds.variable_bounds.map()[k] == a.bounds.variable_bounds.map()[k]);
        assert(c.bounds.variable_bounds.has(k) && c.bounds.variable_bounds.map()[k] == b.bounds.variable_bounds.map()[k]);
    }
}
pub broadcast proof fn lemma_lz_ext_mono(a: Linearizer, b: Linearizer, env: Env)
    requires #[trigger] lz_ext(a, b), #[trigger] lz_ok(b, env) ensures lz_ok(a, env)
{
    reveal(lz_ext); reveal(lz_ok);
    assert forall|x: Constraint| #[trigger] a.constraints@.contains(x) implies c_holds_w(x, env) by { assert(b.constraints@.contains(x)); }
    assert forall|x: MidLinearConstraint| #[trigger] a.linear_constraints@.contains(x) implies row_holds(x, env) by { assert(b.linear_constraints@.contains(x)); }
    assert forall|k: Seq<char>| #[trigger] a.domain.has(k) implies in_domain(a.domain.map()[k].as_type, env[k]) by {
        assert(b.domain.map()[k].as_type == a.domain.map()[k].as_type);
    }
    assert forall|k: Seq<char>| #[trigger] a.bounds.variable_bounds.has(k) implies contains(a.bounds.variable_bounds.map()[k], env[k]) by {
        assert(b.bounds.variable_bounds.map()[k] == a.bounds.variable_bounds.map()[k]);
    }
}
// what the opaque predicates give to the arms
pub proof fn lemma_lz_box(l: Linearizer)
    ensures lz_inv(l) ==> box_wf(l.bounds), forall|env: Env| #[trigger] lz_ok(l, env) ==> box_ok(l.bounds, env),
{ reveal(lz_inv); reveal(lz_ok); }
// a change of fields other than the queue, the domain and the range box (e.g. the auxiliary-name counters) changes nothing
pub proof fn lemma_lz_same(a: Linearizer, b: Linearizer)
    requires a.constraints == b.constraints, a.linear_constraints == b.linear_constraints, a.domain == b.domain, a.bounds == b.bounds,
    ensures lz_ext(a, b), lz_inv(a) == lz_inv(b), forall|env: Env| #[trigger] lz_ok(b, env) == lz_ok(a, env),
{ reveal(lz_inv); reveal(lz_ok); reveal(lz_ext); }
// transitivity is NOT broadcast (two-trigger chains are expensive): call it where a chain is needed
pub broadcast group lz { lemma_lz_ext_refl, lemma_lz_ext_mono }
pub broadcast group lz_trans { lemma_lz_ext_trans }
