// ----- ghost oracle: a row evaluated after listed columns are removed (DESIGN §5 C13) -----
// every listed position of z holds zero
pub open spec fn zero_at(z: Seq<real>, f: Seq<usize>) -> bool {
    forall|j: int| 0 <= j < f.len() && (#[trigger] f[j]) < z.len() ==> z[f[j] as int] == 0real
}
pub proof fn lemma_remove_len<A, B>(a: Seq<A>, b: Seq<B>, f: Seq<usize>)
    requires a.len() == b.len(),
    ensures remove_idx(a, f).len() == remove_idx(b, f).len(), remove_idx(a, f).len() <= a.len(),
    decreases a.len(),
{
    if a.len() > 0 { lemma_remove_len(a.drop_last(), b.drop_last(), f); }
}
// the value of a row depends only on the entries of x below the row's width
pub proof fn lemma_pdot_xagree(c: Seq<F64>, x: Seq<real>, y: Seq<real>)
    requires x.len() >= c.len(), y.len() >= c.len(), forall|j: int| 0 <= j < c.len() ==> x[j] == y[j],
    ensures pdot(c, x) == pdot(c, y),
    decreases c.len(),
{
    if c.len() > 0 { lemma_pdot_xagree(c.drop_last(), x, y); }
}
// removing columns whose entry of z is zero does not change the value of the row
pub proof fn lemma_pdot_remove(c: Seq<F64>, z: Seq<real>, f: Seq<usize>)
    requires c.len() == z.len(), zero_at(z, f), c.len() <= usize::MAX,
    ensures pdot(remove_idx(c, f), remove_idx(z, f)) == pdot(c, z),
    decreases c.len(),
{
    reveal(rmul_s); reveal(rdiv_s);
    if c.len() > 0 {
        let l = c.len() - 1;
        let (c1, z1) = (c.drop_last(), z.drop_last());
        assert(zero_at(z1, f)) by {
            assert forall|j: int| 0 <= j < f.len() && (#[trigger] f[j]) < z1.len() implies z1[f[j] as int] == 0real by { assert(z1[f[j] as int] == z[f[j] as int]); }
        }
        lemma_pdot_remove(c1, z1, f);
        lemma_remove_len(c1, z1, f);
        lemma_pdot_xagree(c1, z, z1);
        let (rc, rz) = (remove_idx(c1, f), remove_idx(z1, f));
        if f.contains(l as usize) {
            let j = choose|j: int| 0 <= j < f.len() && f[j] == l as usize;
            assert(f[j] < z.len());
            assert(z[l] == 0real);
            assert(rv(c.last()) * z[l] == 0real) by (nonlinear_arith) requires z[l] == 0real;
        } else {
            let rz2 = rz.push(z.last());
            lemma_pdot_xagree(rc, rz2, rz);
            assert(rc.push(c.last()).drop_last() =~= rc);
            assert(rz2[rc.len() as int] == z.last());
        }
    }
}
