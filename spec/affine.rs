// ----- ghost meaning of an affine row of the bound analyser (AffineForm): constant + sum x_k * c_k -----
pub open spec fn tsum(keys: Seq<Seq<char>>, m: Map<Seq<char>, F64>, env: Env, n: int) -> real
    decreases n,
{
    if n <= 0 || n > keys.len() { 0real } else { tsum(keys, m, env, n - 1) + rmul_s(env[keys[n - 1]], rv(m[keys[n - 1]])) }
}
pub open spec fn form_val(f: AffineForm, env: Env) -> real {
    rv(f.constant) + tsum(f.coefficients.keys(), f.coefficients.map(), env, f.coefficients.keys().len() as int)
}
// finite constant, finite non-zero coefficients (from_exp / merge / scale drop zero coefficients)
pub open spec fn form_wf(f: AffineForm) -> bool {
    &&& f.coefficients.wf() && finite(f.constant)
    &&& forall|k: Seq<char>| #[trigger] f.coefficients.has(k) ==> finite(f.coefficients.map()[k]) && rv(f.coefficients.map()[k]) != 0real
}
// value of term j at env
pub open spec fn term_val(f: AffineForm, env: Env, j: int) -> real { rmul_s(env[f.coefficients.keys()[j]], rv(f.coefficients.map()[f.coefficients.keys()[j]])) }
// sum of the terms from j on
pub open spec fn tail_sum(f: AffineForm, env: Env, j: int) -> real {
    tsum(f.coefficients.keys(), f.coefficients.map(), env, f.coefficients.keys().len() as int) - tsum(f.coefficients.keys(), f.coefficients.map(), env, j)
}
// the row's value satisfies the comparison against 0 (this is what required_bounds encodes)
pub open spec fn contains_req(c: Comparison, d: real) -> bool {
    match c {
        Comparison::LessOrEqual | Comparison::Less => d <= 0real,
        Comparison::GreaterOrEqual | Comparison::Greater => d >= 0real,
        Comparison::Equal => d == 0real,
    }
}
