// ----- ghost oracle: removing listed positions from a sequence (DESIGN §5 C13) -----
pub open spec fn remove_idx<T>(s: Seq<T>, f: Seq<usize>) -> Seq<T>
    decreases s.len(),
{
    if s.len() == 0 { Seq::<T>::empty() }
    else if f.contains((s.len() - 1) as usize) { remove_idx(s.drop_last(), f) }
    else { remove_idx(s.drop_last(), f).push(s.last()) }
}
