// ----- publication of an inferred range into a declared domain (C07: "never exclude a feasible value") -----
#[verifier::opaque]
pub open spec fn pub_ok(t0: VariableType, b: Bounds, t1: VariableType) -> bool {
    forall|x: real| in_domain(t0, x) && contains(b, x) ==> #[trigger] in_domain(t1, x)
}
pub proof fn lemma_pub_same(t0: VariableType, b: Bounds) ensures pub_ok(t0, b, t0) { reveal(pub_ok); }
pub proof fn lemma_pub_real(lo: F64, hi: F64, b: Bounds) ensures pub_ok(VariableType::Real(lo, hi), b, VariableType::Real(b.lower, b.upper)) { reveal(pub_ok); }
pub proof fn lemma_pub_nn(lo: F64, hi: F64, b: Bounds, l1: F64)
    requires fv(l1) == ext_max(fv(b.lower), Ext::Fin(0real)), !(fv(b.lower) is NaN)
    ensures pub_ok(VariableType::NonNegativeReal(lo, hi), b, VariableType::NonNegativeReal(l1, b.upper))
{ reveal(pub_ok); }
// integer ranges: whatever the rounding rule, the published ends must bracket every integer of the declared range that lies in the inferred interval
pub open spec fn brackets(a0: i32, b0: i32, b: Bounds, li: i32, ui: i32) -> bool {
    forall|k: int| a0 <= k <= b0 && #[trigger] contains(b, i2r(k)) ==> li <= k <= ui
}
pub proof fn lemma_pub_int(a0: i32, b0: i32, b: Bounds, li: i32, ui: i32)
    requires brackets(a0, b0, b, li, ui)
    ensures pub_ok(VariableType::IntegerRange(a0, b0), b, VariableType::IntegerRange(li, ui))
{
    reveal(pub_ok);
    assert forall|x: real| in_domain(VariableType::IntegerRange(a0, b0), x) && contains(b, x) implies #[trigger] in_domain(VariableType::IntegerRange(li, ui), x) by {
        let k = choose|k: int| a0 <= k <= b0 && x == #[trigger] i2r(k);
        assert(contains(b, i2r(k)));
        assert(li <= k && k <= ui);
        assert(x == i2r(k));
    }
}
// the rule used today: li = (ceil(lower - tol)) as i32, ui = (floor(upper + tol)) as i32 with saturating casts
pub open spec fn cast_of(v: Ext, r: i32) -> bool {
    match v {
        Ext::NaN => r == 0,
        Ext::NegInf => r == i32::MIN,
        Ext::PosInf => r == i32::MAX,
        Ext::Fin(x) => if x < -2147483648real { r == i32::MIN } else if x > 2147483647real { r == i32::MAX } else { x == (rfloor(x) as real) ==> r as int == rfloor(x) },
    }
}
pub proof fn lemma_brackets_rounded(a0: i32, b0: i32, b: Bounds, lo: Ext, hi: Ext, li: i32, ui: i32)
    requires wf(b), cast_of(lo, li), cast_of(hi, ui),
        // lo is an integer (or -inf) not above any integer of the interval, hi an integer (or +inf) not below any
        lo is NegInf || (lo matches Ext::Fin(x) && x == (rfloor(x) as real) && forall|k: int| #[trigger] contains(b, i2r(k)) ==> x <= k as real),
        hi is PosInf || (hi matches Ext::Fin(y) && y == (rfloor(y) as real) && forall|k: int| #[trigger] contains(b, i2r(k)) ==> k as real <= y),
    ensures brackets(a0, b0, b, li, ui)
{
    assert forall|k: int| a0 <= k <= b0 && #[trigger] contains(b, i2r(k)) implies li <= k <= ui by { lemma_i2r(k); }
}
pub proof fn lemma_i2r(k: int) ensures i2r(k) == k as real {}
pub proof fn lemma_floor_int(k: int) ensures rfloor(k as real) == k
{
    ax_rfloor(k as real);
    let f = rfloor(k as real);
    assert((f as real) <= (k as real) && (k as real) < ((f + 1) as real));
}
