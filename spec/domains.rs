// ----- ghost oracle: variable domains (DESIGN §4) -----
pub open spec fn i2r(k: int) -> real { k as real }
pub open spec fn is_int(x: real) -> bool { exists|k: int| x == #[trigger] i2r(k) }
pub open spec fn in_domain(t: VariableType, x: real) -> bool {
    match t {
        VariableType::Boolean => x == 0real || x == 1real,
        VariableType::IntegerRange(lo, hi) => exists|k: int| lo <= k <= hi && x == #[trigger] i2r(k),
        VariableType::NonNegativeReal(lo, hi) => x >= 0real && ext_le(fv(lo), Ext::Fin(x)) && ext_le(Ext::Fin(x), fv(hi)),
        VariableType::Real(lo, hi) => ext_le(fv(lo), Ext::Fin(x)) && ext_le(Ext::Fin(x), fv(hi)),
    }
}
// a declared range is well formed when its ends are not NaN and it is not (+inf, ..) / (.., -inf)
pub open spec fn vt_wf(t: VariableType) -> bool {
    match t {
        VariableType::NonNegativeReal(lo, hi) | VariableType::Real(lo, hi) =>
            !(fv(lo) is NaN) && !(fv(hi) is NaN) && !(fv(lo) is PosInf) && !(fv(hi) is NegInf),
        _ => true,
    }
}
