// ----- C13, composition of the slices of to_standard_form: what a row of the standard form evaluates to (ghost lemmas over the contracts) -----
// the original assignment read off an extended one: position f[j] (zero in z) takes the value z[n + 2j] - z[n + 2j + 1]
pub open spec fn fold_x(z: Seq<real>, f: Seq<usize>, n: int, k: int) -> Seq<real>
    decreases k,
{
    if k <= 0 { z.take(n) } else { fold_x(z, f, n, k - 1).update(f[k - 1] as int, z[n + 2 * (k - 1)] - z[n + 2 * (k - 1) + 1]) }
}
pub open spec fn increasing(f: Seq<usize>) -> bool { forall|j: int, k: int| 0 <= j < k < f.len() ==> f[j] < f[k] }
pub proof fn lemma_fold_shape(z: Seq<real>, f: Seq<usize>, n: int, k: int)
    requires 0 <= k <= f.len(), 0 <= n <= z.len(), increasing(f), forall|j: int| 0 <= j < f.len() ==> (#[trigger] f[j]) < n,
    ensures fold_x(z, f, n, k).len() == n,
        forall|i: int| 0 <= i < n && (forall|j: int| 0 <= j < k ==> #[trigger] f[j] != i) ==> fold_x(z, f, n, k)[i] == z[i],
        forall|j: int| 0 <= j < k ==> fold_x(z, f, n, k)[#[trigger] f[j] as int] == z[n + 2 * j] - z[n + 2 * j + 1],
    decreases k,
{
    if k > 0 {
        lemma_fold_shape(z, f, n, k - 1);
        let p = fold_x(z, f, n, k - 1);
        let q = fold_x(z, f, n, k);
        assert(f[k - 1] < n);
        assert forall|j: int| 0 <= j < k implies q[#[trigger] f[j] as int] == z[n + 2 * j] - z[n + 2 * j + 1] by {
            if j < k - 1 { assert(f[j] < f[k - 1]); assert(q[f[j] as int] == p[f[j] as int]); }
        }
    }
}
// changing one coordinate of x changes the row's value by coefficient * difference
pub proof fn lemma_pdot_update(c: Seq<F64>, x: Seq<real>, i: int, v: real)
    requires 0 <= i < c.len(), c.len() <= x.len(),
    ensures pdot(c, x.update(i, v)) == pdot(c, x) + rv(c[i]) * (v - x[i]),
    decreases c.len(),
{
    let y = x.update(i, v);
    let l = c.len() - 1;
    if i == l {
        lemma_pdot_xagree(c.drop_last(), y, x);
        assert(rv(c.last()) * v == rv(c.last()) * x[l] + rv(c.last()) * (v - x[l])) by (nonlinear_arith);
    } else {
        lemma_pdot_update(c.drop_last(), x, i, v);
        assert(y[l] == x[l]);
        assert(c.drop_last()[i] == c[i]);
    }
}
// value of the original row at the folded assignment = value at z + what the appended pairs add (z zero at the split positions)
pub proof fn lemma_fold_value(c0: Seq<F64>, z: Seq<real>, f: Seq<usize>, n: int, k: int)
    requires c0.len() == n, 0 <= k <= f.len(), n <= z.len(), increasing(f), zero_at(z, f), forall|j: int| 0 <= j < f.len() ==> (#[trigger] f[j]) < n,
    ensures pdot(c0, fold_x(z, f, n, k)) == pdot(c0, z) + split_sum(c0, f, z, n, k),
    decreases k,
{
    if k == 0 {
        lemma_pdot_xagree(c0, z.take(n), z);
    } else {
        lemma_fold_value(c0, z, f, n, k - 1);
        lemma_fold_shape(z, f, n, k - 1);
        let p = fold_x(z, f, n, k - 1);
        let i = f[k - 1] as int;
        assert(f[k - 1] < n);
        assert(p[i] == z[i]) by { assert forall|j: int| 0 <= j < k - 1 implies #[trigger] f[j] != i by { assert(f[j] < f[k - 1]); } }
        assert(z[i] == 0real);
        lemma_pdot_update(c0, p, i, z[n + 2 * (k - 1)] - z[n + 2 * (k - 1) + 1]);
    }
}
// THE ROW THEOREM of the split: row0 (width n) -> pairs appended (split_row) -> split columns removed (remove_idx).  For every extended
// assignment z that is zero at the split positions, the final row at the compacted assignment equals the ORIGINAL row at the folded one.
pub proof fn lemma_split_row_theorem(c0: Seq<F64>, c1: Seq<F64>, c2: Seq<F64>, f: Seq<usize>, n: int, z: Seq<real>)
    requires c0.len() == n, fin_seq(c0), split_row(c0, c1, f, n, f.len() as int), c2 == remove_idx(c1, f), c1.len() <= usize::MAX,
        increasing(f), forall|j: int| 0 <= j < f.len() ==> (#[trigger] f[j]) < n,
        z.len() == n + 2 * f.len(), zero_at(z, f),
    ensures pdot(c2, remove_idx(z, f)) == pdot(c0, fold_x(z, f, n, f.len() as int)),
{
    lemma_pdot_remove(c1, z, f);
    lemma_split_row(c0, c1, f, n, f.len() as int, z);
    lemma_fold_value(c0, z, f, n, f.len() as int);
}
