// ----- ghost oracle: simplex tableau (DESIGN §4, §5 C14); needs vectors.rs -----
// x solves the equality system  A x = b
pub open spec fn sat(a: Seq<Vec<F64>>, b: Seq<F64>, x: Seq<real>) -> bool {
    forall|i: int| 0 <= i < a.len() ==> dot(rvs((#[trigger] a[i])@), x) == rv(b[i])
}
// column j of A is the unit vector e_r
pub open spec fn unit_col(a: Seq<Vec<F64>>, j: int, r: int) -> bool {
    forall|i: int| 0 <= i < a.len() ==> rv((#[trigger] a[i])[j]) == (if i == r { 1real } else { 0real })
}
// E-matching hook for call-free facts about a row
pub open spec fn tab_wf(t: Tableau) -> bool {
    &&& t.b.len() == t.a.len()
    &&& t.in_basis.len() == t.a.len()
    &&& rect(t.a@, t.c.len() as int)
    &&& fin_mat(t.a@) && fin_seq(t.b@) && fin_seq(t.c@)
    &&& fv(t.current_value) is Fin
}
// the function the tableau minimises, measured at x:  c.x - current_value
// (pivot keeps  c.x - v  constant on the solution set: see the contract of Tableau::pivot)
pub open spec fn obj(c: Seq<F64>, v: F64, x: Seq<real>) -> real { dot(rvs(c), x) - rv(v) }

