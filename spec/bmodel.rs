// ----- ghost meaning of a builder-side constraint and the builder's representation invariant (C16) -----
// a builder constraint holds at an index-based assignment (same definition as c_holds, over the index-based tree)
pub open spec fn bc_holds(c: BuilderConstraint, ienv: IEnv) -> bool {
    if c.is_logic_assertion {
        esem(c.lhs, ienv) matches Some(l) && truthy(l)
    } else {
        match (esem(c.lhs, ienv), esem(c.rhs, ienv)) { (Some(l), Some(r)) => cmp_sem(c.constraint_type, l, r), _ => false }
    }
}
// every handle used by the constraint was minted by this builder
pub open spec fn bc_ok(c: BuilderConstraint, n: int) -> bool { idx_ok(c.lhs, n) && idx_ok(c.rhs, n) }
// representation invariant of the builder: handle i names the i-th declared variable; names are distinct (the keys of an
// insertion-ordered map) and every one of them has a domain entry
pub open spec fn mb_wf(b: ModelBuilder) -> bool {
    &&& b.domain.wf()
    &&& b.variable_names@.len() == b.domain.keys().len()
    &&& forall|i: int| 0 <= i < b.variable_names@.len() ==> (#[trigger] b.variable_names@[i])@ == b.domain.keys()[i]
}
