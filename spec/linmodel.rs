// ----- ghost oracle: linear models (DESIGN §4 linear side) -----
// left-hand side of a row / objective:  sum_{i<n} coef[i] * x[i]
pub open spec fn lin_lhs(coef: Seq<F64>, x: Seq<real>, n: int) -> real
    decreases n,
{
    if n <= 0 || n > coef.len() { 0real } else { lin_lhs(coef, x, n - 1) + rmul_s(rv(coef[n - 1]), x[n - 1]) }
}
pub open spec fn lm_type(lp: LinearModel, i: int) -> VariableType { lp.domain.map()[lp.variables@[i]@].as_type }
// structural well-formedness of a linear model (what Linearizer::linearize / the builder produce: C08)
pub open spec fn lm_wf(lp: LinearModel) -> bool {
    &&& lp.domain.wf()
    &&& forall|i: int| 0 <= i < lp.variables@.len() ==> lp.domain.has(#[trigger] lp.variables@[i]@)
    &&& forall|j: int| 0 <= j < lp.constraints@.len() ==> (#[trigger] lp.constraints@[j]).coefficients@.len() == lp.variables@.len()
}
