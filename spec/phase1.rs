// ----- ghost oracle: the phase-one tableau of the two-phase start (DESIGN §5 C05 / C14) -----
// the phase-one cost row before it is brought into canonical form: 0 on the n structural columns, 1 on the m artificial ones
pub open spec fn art_vec(n: int, m: int) -> Seq<real> { Seq::new((n + m) as nat, |j: int| if j < n { 0real } else { 1real }) }
// sum over the first k rows of the value of the row at x
pub open spec fn rows_sum(a: Seq<Vec<F64>>, x: Seq<real>, k: int) -> real
    decreases k,
{
    if k <= 0 { 0real } else { rows_sum(a, x, k - 1) + dot(rvs(a[k - 1]@), x) }
}
pub open spec fn b_sum(b: Seq<F64>, k: int) -> real
    decreases k,
{
    if k <= 0 { 0real } else { b_sum(b, k - 1) + rv(b[k - 1]) }
}
// rows below k agree => same sum
pub proof fn lemma_rows_sum_agree(a: Seq<Vec<F64>>, a2: Seq<Vec<F64>>, x: Seq<real>, k: int)
    requires 0 <= k <= a.len(), k <= a2.len(), forall|r: int| 0 <= r < k ==> #[trigger] a2[r] == a[r],
    ensures rows_sum(a2, x, k) == rows_sum(a, x, k),
    decreases k,
{
    if k > 0 { lemma_rows_sum_agree(a, a2, x, k - 1); }
}
// on the solution set of the rows the sum of the row values is the sum of the right-hand sides
pub proof fn lemma_rows_sum_b(a: Seq<Vec<F64>>, b: Seq<F64>, x: Seq<real>, k: int)
    requires 0 <= k <= a.len(), k <= b.len(), forall|r: int| 0 <= r < k ==> dot(rvs((#[trigger] a[r])@), x) == rv(b[r]),
    ensures rows_sum(a, x, k) == b_sum(b, k),
    decreases k,
{
    if k > 0 { lemma_rows_sum_b(a, b, x, k - 1); }
}
// the value of the 0/1 cost row is the sum of the artificial entries of x
pub open spec fn art_sum(x: Seq<real>, n: int, k: int) -> real
    decreases k,
{
    if k <= 0 { 0real } else { art_sum(x, n, k - 1) + x[n + k - 1] }
}
pub proof fn lemma_art_dot(x: Seq<real>, n: int, m: int)
    requires 0 <= n, 0 <= m, x.len() == n + m,
    ensures dot(art_vec(n, m), x) == art_sum(x, n, m),
    decreases m,
{
    reveal(rmul_s); reveal(rdiv_s);
    if m == 0 {
        lemma_art_zero(x, n);
    } else {
        let v = art_vec(n, m);
        assert(v.drop_last() =~= art_vec(n, m - 1));
        lemma_art_dot(x.drop_last(), n, m - 1);
        lemma_art_sum_prefix(x, x.drop_last(), n, m - 1);
        assert(v.last() == 1real);
        assert(1real * x.last() == x.last()) by (nonlinear_arith);
    }
}
pub proof fn lemma_art_zero(x: Seq<real>, n: int)
    requires 0 <= n, x.len() == n,
    ensures dot(art_vec(n, 0), x) == 0real,
    decreases n,
{
    reveal(rmul_s); reveal(rdiv_s);
    if n > 0 {
        let v = art_vec(n, 0);
        assert(v.drop_last() =~= art_vec(n - 1, 0));
        lemma_art_zero(x.drop_last(), n - 1);
        assert(v.last() == 0real);
        assert(0real * x.last() == 0real) by (nonlinear_arith);
    }
}
pub proof fn lemma_art_sum_prefix(x: Seq<real>, y: Seq<real>, n: int, k: int)
    requires 0 <= n, 0 <= k, n + k <= y.len(), y.len() <= x.len(), forall|j: int| 0 <= j < y.len() ==> x[j] == y[j],
    ensures art_sum(x, n, k) == art_sum(y, n, k),
    decreases k,
{
    if k > 0 { lemma_art_sum_prefix(x, y, n, k - 1); }
}
