// ----- ghost meaning of a one-directional logic witness (C01, logic assertions) -----
// under everything the context c demands, w is defined and 0/1-valued, and w = 1 certifies that e (where it is defined) has truth value t
pub open spec fn wit_ok(c: Linearizer, e: Exp, t: bool, w: Exp) -> bool {
    forall|env: Env| #[trigger] lz_ok(c, env) ==> (sem(w, env) matches Some(v) && (v == 0real || v == 1real)
        && (v == 1real ==> (sem(e, env) matches Some(x) ==> truthy(x) == t)))
}
// a 0/1-valued affine form that IS the value of e under the context's domains
pub open spec fn bin_val(c: Linearizer, e: Exp, f: LinearizationContext) -> bool {
    forall|env: Env| #[trigger] lz_ok(c, env) ==> (sem(e, env) == Some(lc_eval(f, env)) && (lc_eval(f, env) == 0real || lc_eval(f, env) == 1real))
}
// env respects every declared domain of a domain map
pub open spec fn dom_ok(d: SMap<DomainVariable>, env: Env) -> bool { forall|k: Seq<char>| #[trigger] d.has(k) ==> in_domain(d.map()[k].as_type, env[k]) }
// witnesses survive growth of the context
pub proof fn lemma_wit_mono(a: Linearizer, b: Linearizer, e: Exp, t: bool, w: Exp)
    requires lz_ext(a, b), wit_ok(a, e, t, w) ensures wit_ok(b, e, t, w)
{
    assert forall|env: Env| #[trigger] lz_ok(b, env) implies (sem(w, env) matches Some(v) && (v == 0real || v == 1real)
        && (v == 1real ==> (sem(e, env) matches Some(x) ==> truthy(x) == t))) by { lemma_lz_ext_mono(a, b, env); }
}
// only the meaning of the witnessed expression matters
pub proof fn lemma_wit_same(c: Linearizer, e1: Exp, e2: Exp, t: bool, w: Exp)
    requires wit_ok(c, e1, t, w), forall|env: Env| #[trigger] sem(e2, env) is Some ==> sem(e1, env) == sem(e2, env) ensures wit_ok(c, e2, t, w)
{
    assert forall|env: Env| #[trigger] lz_ok(c, env) implies (sem(w, env) matches Some(v) && (v == 0real || v == 1real)
        && (v == 1real ==> (sem(e2, env) matches Some(x) ==> truthy(x) == t))) by { if sem(e2, env) is Some { assert(sem(e1, env) == sem(e2, env)); } }
}
// conjunction / disjunction from facts about the operands
pub proof fn lemma_all_uniform(es: Seq<Exp>, env: Env, is_and: bool, n: int)
    requires 0 <= n <= es.len(), forall|k: int| 0 <= k < n ==> (sem(#[trigger] es[k], env) matches Some(x) ==> truthy(x) == is_and),
    ensures sem_all(es, env, is_and, n) matches Some(y) ==> truthy(y) == is_and,
    decreases n
{ if n > 0 { lemma_all_uniform(es, env, is_and, n - 1); } }
pub proof fn lemma_all_one(es: Seq<Exp>, env: Env, is_and: bool, n: int, j: int)
    requires 0 <= j < n <= es.len(), sem(es[j], env) matches Some(x) ==> truthy(x) != is_and,
    ensures sem_all(es, env, is_and, n) matches Some(y) ==> truthy(y) != is_and,
    decreases n
{ if n - 1 > j { lemma_all_one(es, env, is_and, n - 1, j); } }
// a sum of 0/1 values that reaches 1 has a summand equal to 1
pub proof fn lemma_ssum_one(ws: Seq<Exp>, env: Env, n: int) -> (j: int)
    requires 0 <= n <= ws.len(), forall|k: int| 0 <= k < n ==> (sem(#[trigger] ws[k], env) == Some(0real) || sem(ws[k], env) == Some(1real)), ssum(ws, env, n) >= 1real,
    ensures 0 <= j < n, sem(ws[j], env) == Some(1real),
    decreases n
{
    if n <= 0 { 0 } else if sem(ws[n - 1], env) == Some(1real) { n - 1 } else { lemma_ssum_one(ws, env, n - 1) }
}
// "each" mode: w <= every child, the children witness the operands in the connective's own polarity
pub proof fn lemma_wit_each(c: Linearizer, es: Vec<Exp>, ws: Seq<Exp>, is_and: bool, name: String)
    requires
        ws.len() == es@.len(),
        forall|k: int| 0 <= k < ws.len() ==> wit_ok(c, #[trigger] es@[k], is_and, ws[k]),
        forall|env: Env| #[trigger] lz_ok(c, env) ==> (env[name@] == 0real || env[name@] == 1real),
        forall|k: int, env: Env| 0 <= k < ws.len() && #[trigger] lz_ok(c, env) ==> (sem(#[trigger] ws[k], env) matches Some(cv) ==> env[name@] <= cv),
    ensures wit_ok(c, if is_and { Exp::And(es) } else { Exp::Or(es) }, is_and, Exp::Variable(name)),
{
    let e = if is_and { Exp::And(es) } else { Exp::Or(es) };
    assert forall|env: Env| #[trigger] lz_ok(c, env) implies (sem(Exp::Variable(name), env) matches Some(v) && (v == 0real || v == 1real)
        && (v == 1real ==> (sem(e, env) matches Some(x) ==> truthy(x) == is_and))) by {
        if env[name@] == 1real {
            assert forall|k: int| 0 <= k < es@.len() implies (sem(#[trigger] es@[k], env) matches Some(x) ==> truthy(x) == is_and) by {
                assert(wit_ok(c, es@[k], is_and, ws[k]));
                assert(sem(ws[k], env) is Some);
            }
            lemma_all_uniform(es@, env, is_and, es@.len() as int);
        }
    }
}
// "sum" mode: w <= the sum of the children, the children witness the operands in the opposite polarity
pub proof fn lemma_wit_sum(c: Linearizer, es: Vec<Exp>, ws: Seq<Exp>, is_and: bool, name: String, s: Exp)
    requires
        ws.len() == es@.len(),
        forall|k: int| 0 <= k < ws.len() ==> wit_ok(c, #[trigger] es@[k], !is_and, ws[k]),
        forall|env: Env| #[trigger] lz_ok(c, env) ==> (env[name@] == 0real || env[name@] == 1real),
        forall|env: Env| (forall|k: int| 0 <= k < ws.len() ==> sem(#[trigger] ws[k], env) is Some) ==> #[trigger] sem(s, env) == Some(ssum(ws, env, ws.len() as int)),
        forall|env: Env| #[trigger] lz_ok(c, env) ==> (sem(s, env) matches Some(sv) ==> env[name@] <= sv),
    ensures wit_ok(c, if is_and { Exp::And(es) } else { Exp::Or(es) }, !is_and, Exp::Variable(name)),
{
    let e = if is_and { Exp::And(es) } else { Exp::Or(es) };
    assert forall|env: Env| #[trigger] lz_ok(c, env) implies (sem(Exp::Variable(name), env) matches Some(v) && (v == 0real || v == 1real)
        && (v == 1real ==> (sem(e, env) matches Some(x) ==> truthy(x) == !is_and))) by {
        if env[name@] == 1real {
            assert forall|k: int| 0 <= k < ws.len() implies (sem(#[trigger] ws[k], env) == Some(0real) || sem(ws[k], env) == Some(1real)) by {
                assert(wit_ok(c, es@[k], !is_and, ws[k]));
            }
            assert(sem(s, env) == Some(ssum(ws, env, ws.len() as int)));
            let j = lemma_ssum_one(ws, env, ws.len() as int);
            assert(wit_ok(c, es@[j], !is_and, ws[j]));
            lemma_all_one(es@, env, is_and, es@.len() as int, j);
        }
    }
}
// negation flips the polarity a witness certifies
pub proof fn lemma_wit_not(c: Linearizer, a: Box<Exp>, t: bool, w: Exp)
    requires wit_ok(c, *a, !t, w) ensures wit_ok(c, Exp::Not(a), t, w), wit_ok(c, Exp::UnOp(UnOp::Not, a), t, w)
{
    assert forall|env: Env| #[trigger] lz_ok(c, env) implies (sem(w, env) matches Some(v) && (v == 0real || v == 1real)
        && (v == 1real ==> (sem(Exp::Not(a), env) matches Some(x) ==> truthy(x) == t))) by { lemma_sem_not(a, env); }
    assert forall|env: Env| #[trigger] lz_ok(c, env) implies (sem(w, env) matches Some(v) && (v == 0real || v == 1real)
        && (v == 1real ==> (sem(Exp::UnOp(UnOp::Not, a), env) matches Some(x) ==> truthy(x) == t))) by { lemma_sem_unop(UnOp::Not, a, env); }
}
// a implies b  is  (not a) or b
pub proof fn lemma_wit_implies(c: Linearizer, l: Box<Exp>, r: Box<Exp>, v: Vec<Exp>, t: bool, w: Exp)
    requires v@.len() == 2, v@[0] == Exp::Not(l), v@[1] == *r, wit_ok(c, Exp::Or(v), t, w)
    ensures wit_ok(c, Exp::Implies(l, r), t, w)
{
    assert forall|env: Env| #[trigger] sem(Exp::Implies(l, r), env) is Some implies sem(Exp::Or(v), env) == sem(Exp::Implies(l, r), env) by {
        lemma_sem_implies(l, r, env); lemma_sem_not(l, env);
        reveal_with_fuel(sem_all, 3);
        assert(sem(Exp::Or(v), env) == sem_all(v@, env, false, 2));
    }
    lemma_wit_same(c, Exp::Or(v), Exp::Implies(l, r), t, w);
}
pub proof fn lemma_fin_or2(l: Box<Exp>, r: Box<Exp>, v: Vec<Exp>)
    requires v@.len() == 2, v@[0] == Exp::Not(l), v@[1] == *r, exp_fin(*l), exp_fin(*r) ensures exp_fin(Exp::Or(v))
{ reveal_with_fuel(exp_fin, 2); lemma_exp_fin(v@[0]); }
// a xor b  is  not (a iff b)
pub proof fn lemma_wit_xor(c: Linearizer, l: Box<Exp>, r: Box<Exp>, t: bool, w: Exp)
    requires wit_ok(c, Exp::Iff(l, r), !t, w) ensures wit_ok(c, Exp::Xor(l, r), t, w)
{
    assert forall|env: Env| #[trigger] lz_ok(c, env) implies (sem(w, env) matches Some(v) && (v == 0real || v == 1real)
        && (v == 1real ==> (sem(Exp::Xor(l, r), env) matches Some(x) ==> truthy(x) == t))) by { lemma_sem_xor(l, r, env); lemma_sem_iff(l, r, env); }
}
// the values of the two upper bounds of an equivalence witness, given the 0/1 values x, y of the operands
pub open spec fn iff_ubv(x: real, y: real, t: bool, k: int) -> real {
    if t { if k == 0 { 1real - x + y } else { 1real + x - y } } else { if k == 0 { x + y } else { 2real - x - y } }
}
pub proof fn lemma_wit_iff(c: Linearizer, l: Box<Exp>, r: Box<Exp>, a: Exp, b: Exp, t: bool, name: String, u0: Exp, u1: Exp)
    requires
        forall|env: Env| #[trigger] lz_ok(c, env) ==> (sem(a, env) matches Some(x) && (x == 0real || x == 1real) && (sem(*l, env) matches Some(tl) ==> x == tl)),
        forall|env: Env| #[trigger] lz_ok(c, env) ==> (sem(b, env) matches Some(y) && (y == 0real || y == 1real) && (sem(*r, env) matches Some(tr) ==> y == tr)),
        forall|env: Env| #[trigger] lz_ok(c, env) ==> (env[name@] == 0real || env[name@] == 1real),
        forall|env: Env| #[trigger] lz_ok(c, env) ==> sem(u0, env) == Some(iff_ubv(sem(a, env)->Some_0, sem(b, env)->Some_0, t, 0)) && sem(u1, env) == Some(iff_ubv(sem(a, env)->Some_0, sem(b, env)->Some_0, t, 1)),
        forall|env: Env| #[trigger] lz_ok(c, env) ==> (sem(u0, env) matches Some(u) ==> env[name@] <= u) && (sem(u1, env) matches Some(u) ==> env[name@] <= u),
    ensures wit_ok(c, Exp::Iff(l, r), t, Exp::Variable(name)),
{
    assert forall|env: Env| #[trigger] lz_ok(c, env) implies (sem(Exp::Variable(name), env) matches Some(v) && (v == 0real || v == 1real)
        && (v == 1real ==> (sem(Exp::Iff(l, r), env) matches Some(x) ==> truthy(x) == t))) by {
        lemma_sem_iff(l, r, env);
    }
}
// the context demands that e (where defined) has truth value t
pub open spec fn asserted(c: Linearizer, e: Exp, t: bool) -> bool {
    forall|env: Env| #[trigger] lz_ok(c, env) ==> (sem(e, env) matches Some(v) ==> truthy(v) == t)
}
pub proof fn lemma_assert_mono(a: Linearizer, b: Linearizer, e: Exp, t: bool)
    requires lz_ext(a, b), asserted(a, e, t) ensures asserted(b, e, t)
{ assert forall|env: Env| #[trigger] lz_ok(b, env) implies (sem(e, env) matches Some(v) ==> truthy(v) == t) by { lemma_lz_ext_mono(a, b, env); } }
pub proof fn lemma_assert_not(c: Linearizer, a: Box<Exp>, t: bool)
    requires asserted(c, *a, !t) ensures asserted(c, Exp::Not(a), t), asserted(c, Exp::UnOp(UnOp::Not, a), t)
{
    assert forall|env: Env| #[trigger] lz_ok(c, env) implies (sem(Exp::Not(a), env) matches Some(v) ==> truthy(v) == t) by { lemma_sem_not(a, env); }
    assert forall|env: Env| #[trigger] lz_ok(c, env) implies (sem(Exp::UnOp(UnOp::Not, a), env) matches Some(v) ==> truthy(v) == t) by { lemma_sem_unop(UnOp::Not, a, env); }
}
// every operand asserted in the connective's own polarity
pub proof fn lemma_assert_uniform(c: Linearizer, es: Vec<Exp>, is_and: bool)
    requires forall|k: int| 0 <= k < es@.len() ==> asserted(c, #[trigger] es@[k], is_and)
    ensures asserted(c, if is_and { Exp::And(es) } else { Exp::Or(es) }, is_and)
{
    let e = if is_and { Exp::And(es) } else { Exp::Or(es) };
    assert forall|env: Env| #[trigger] lz_ok(c, env) implies (sem(e, env) matches Some(v) ==> truthy(v) == is_and) by {
        assert forall|k: int| 0 <= k < es@.len() implies (sem(#[trigger] es@[k], env) matches Some(x) ==> truthy(x) == is_and) by { assert(asserted(c, es@[k], is_and)); }
        lemma_all_uniform(es@, env, is_and, es@.len() as int);
    }
}
// the sum of the opposite-polarity witnesses is at least 1
pub proof fn lemma_assert_sum(c: Linearizer, es: Vec<Exp>, ws: Seq<Exp>, is_and: bool, s: Exp)
    requires
        ws.len() == es@.len(),
        forall|k: int| 0 <= k < ws.len() ==> wit_ok(c, #[trigger] es@[k], !is_and, ws[k]),
        forall|env: Env| (forall|k: int| 0 <= k < ws.len() ==> sem(#[trigger] ws[k], env) is Some) ==> #[trigger] sem(s, env) == Some(ssum(ws, env, ws.len() as int)),
        forall|env: Env| #[trigger] lz_ok(c, env) ==> (sem(s, env) matches Some(sv) ==> sv >= 1real),
    ensures asserted(c, if is_and { Exp::And(es) } else { Exp::Or(es) }, !is_and)
{
    let e = if is_and { Exp::And(es) } else { Exp::Or(es) };
    assert forall|env: Env| #[trigger] lz_ok(c, env) implies (sem(e, env) matches Some(v) ==> truthy(v) == !is_and) by {
        assert forall|k: int| 0 <= k < ws.len() implies (sem(#[trigger] ws[k], env) == Some(0real) || sem(ws[k], env) == Some(1real)) by { assert(wit_ok(c, es@[k], !is_and, ws[k])); }
        assert(sem(s, env) == Some(ssum(ws, env, ws.len() as int)));
        let j = lemma_ssum_one(ws, env, ws.len() as int);
        assert(wit_ok(c, es@[j], !is_and, ws[j]));
        lemma_all_one(es@, env, is_and, es@.len() as int, j);
    }
}
// broadcast forms for contexts that a proof cannot name (calls nested in a macro or in one expression)
pub broadcast proof fn lemma_wit_mono_b(a: Linearizer, b: Linearizer, e: Exp, t: bool, w: Exp)
    requires #[trigger] lz_ext(a, b), #[trigger] wit_ok(a, e, t, w) ensures wit_ok(b, e, t, w)
{ lemma_wit_mono(a, b, e, t, w); }
pub broadcast proof fn lemma_assert_mono_b(a: Linearizer, b: Linearizer, e: Exp, t: bool)
    requires #[trigger] lz_ext(a, b), #[trigger] asserted(a, e, t) ensures asserted(b, e, t)
{ lemma_assert_mono(a, b, e, t); }
pub broadcast group wit_b { lemma_wit_mono_b, lemma_assert_mono_b }
// a implies b, asserted true: (witness that a is false) + (witness that b is true) >= 1
pub proof fn lemma_assert_implies_sum(c: Linearizer, l: Box<Exp>, r: Box<Exp>, ws: Seq<Exp>, s: Exp)
    requires
        ws.len() == 2, wit_ok(c, *l, false, ws[0]), wit_ok(c, *r, true, ws[1]),
        forall|env: Env| (forall|k: int| 0 <= k < ws.len() ==> sem(#[trigger] ws[k], env) is Some) ==> #[trigger] sem(s, env) == Some(ssum(ws, env, ws.len() as int)),
        forall|env: Env| #[trigger] lz_ok(c, env) ==> (sem(s, env) matches Some(sv) ==> sv >= 1real),
    ensures asserted(c, Exp::Implies(l, r), true)
{
    assert forall|env: Env| #[trigger] lz_ok(c, env) implies (sem(Exp::Implies(l, r), env) matches Some(v) ==> truthy(v) == true) by {
        lemma_sem_implies(l, r, env);
        assert(sem(ws[0], env) is Some && sem(ws[1], env) is Some);
        assert(sem(s, env) == Some(ssum(ws, env, 2)));
        reveal_with_fuel(ssum, 3);
    }
}
pub proof fn lemma_assert_implies_false(c: Linearizer, l: Box<Exp>, r: Box<Exp>)
    requires asserted(c, *l, true), asserted(c, *r, false) ensures asserted(c, Exp::Implies(l, r), false)
{ assert forall|env: Env| #[trigger] lz_ok(c, env) implies (sem(Exp::Implies(l, r), env) matches Some(v) ==> truthy(v) == false) by { lemma_sem_implies(l, r, env); } }
// iff / xor from the 0/1 values of the operands and the emitted equality
pub proof fn lemma_assert_iff(c: Linearizer, l: Box<Exp>, r: Box<Exp>, a: Exp, b: Exp, same: bool)
    requires
        forall|env: Env| #[trigger] lz_ok(c, env) ==> (sem(a, env) matches Some(x) && (x == 0real || x == 1real) && (sem(*l, env) matches Some(tl) ==> x == tl)),
        forall|env: Env| #[trigger] lz_ok(c, env) ==> (sem(b, env) matches Some(y) && (y == 0real || y == 1real) && (sem(*r, env) matches Some(tr) ==> y == tr)),
        forall|env: Env| #[trigger] lz_ok(c, env) ==> (if same { sem(a, env)->Some_0 == sem(b, env)->Some_0 } else { sem(a, env)->Some_0 + sem(b, env)->Some_0 == 1real }),
    ensures asserted(c, Exp::Iff(l, r), same), asserted(c, Exp::Xor(l, r), !same)
{
    assert forall|env: Env| #[trigger] lz_ok(c, env) implies (sem(Exp::Iff(l, r), env) matches Some(v) ==> truthy(v) == same) by { lemma_sem_iff(l, r, env); }
    assert forall|env: Env| #[trigger] lz_ok(c, env) implies (sem(Exp::Xor(l, r), env) matches Some(v) ==> truthy(v) == !same) by { lemma_sem_xor(l, r, env); }
}
// implication from the 0/1 values of the operands and the emitted row
pub proof fn lemma_assert_implies_vals(c: Linearizer, l: Box<Exp>, r: Box<Exp>, a: Exp, b: Exp, t: bool)
    requires
        forall|env: Env| #[trigger] lz_ok(c, env) ==> (sem(a, env) matches Some(x) && (x == 0real || x == 1real) && (sem(*l, env) matches Some(tl) ==> x == tl)),
        forall|env: Env| #[trigger] lz_ok(c, env) ==> (sem(b, env) matches Some(y) && (y == 0real || y == 1real) && (sem(*r, env) matches Some(tr) ==> y == tr)),
        forall|env: Env| #[trigger] lz_ok(c, env) ==> (if t { sem(a, env)->Some_0 <= sem(b, env)->Some_0 } else { sem(a, env)->Some_0 - sem(b, env)->Some_0 == 1real }),
    ensures asserted(c, Exp::Implies(l, r), t)
{ assert forall|env: Env| #[trigger] lz_ok(c, env) implies (sem(Exp::Implies(l, r), env) matches Some(v) ==> truthy(v) == t) by { lemma_sem_implies(l, r, env); } }
// a 0/1-valued form pinned to 1 (t) or 0 (!t)
pub proof fn lemma_assert_val(c: Linearizer, e: Exp, a: Exp, t: bool)
    requires
        forall|env: Env| #[trigger] lz_ok(c, env) ==> (sem(a, env) matches Some(x) && (x == 0real || x == 1real) && (sem(e, env) matches Some(te) ==> x == te)),
        forall|env: Env| #[trigger] lz_ok(c, env) ==> sem(a, env)->Some_0 == b2r(t),
    ensures asserted(c, e, t)
{ assert forall|env: Env| #[trigger] lz_ok(c, env) implies (sem(e, env) matches Some(v) ==> truthy(v) == t) by {} }
// sums of 0/1 values
pub proof fn lemma_ssum_bounds(ws: Seq<Exp>, env: Env, n: int)
    requires 0 <= n <= ws.len(), forall|k: int| 0 <= k < n ==> (sem(#[trigger] ws[k], env) == Some(0real) || sem(ws[k], env) == Some(1real)),
    ensures 0real <= ssum(ws, env, n) <= n as real,
        ssum(ws, env, n) == n as real ==> forall|k: int| 0 <= k < n ==> sem(#[trigger] ws[k], env) == Some(1real),
        ssum(ws, env, n) == 0real ==> forall|k: int| 0 <= k < n ==> sem(#[trigger] ws[k], env) == Some(0real),
    decreases n
{ if n > 0 { lemma_ssum_bounds(ws, env, n - 1); } }
pub proof fn lemma_ssum_zero_at(ws: Seq<Exp>, env: Env, n: int) -> (j: int)
    requires 0 <= n <= ws.len(), forall|k: int| 0 <= k < n ==> (sem(#[trigger] ws[k], env) == Some(0real) || sem(ws[k], env) == Some(1real)), ssum(ws, env, n) <= n as real - 1real,
    ensures 0 <= j < n, sem(ws[j], env) == Some(0real),
    decreases n
{
    if n <= 0 { 0 } else if sem(ws[n - 1], env) == Some(0real) { n - 1 } else { lemma_ssum_bounds(ws, env, n - 1); lemma_ssum_zero_at(ws, env, n - 1) }
}
// the row a single-row lowering of and / or emits over the sum sv of n operand values
pub open spec fn list_row(is_and: bool, t: bool, sv: real, n: int) -> bool {
    if is_and { if t { sv == n as real } else { sv <= n as real - 1real } } else { if t { sv >= 1real } else { sv == 0real } }
}
pub proof fn lemma_assert_affine_list(c: Linearizer, es: Vec<Exp>, ws: Seq<Exp>, is_and: bool, t: bool, s: Exp)
    requires
        ws.len() == es@.len(),
        forall|k: int, env: Env| 0 <= k < ws.len() && #[trigger] lz_ok(c, env) ==> (sem(#[trigger] ws[k], env) matches Some(x) && (x == 0real || x == 1real) && (sem(es@[k], env) matches Some(te) ==> x == te)),
        forall|env: Env| (forall|k: int| 0 <= k < ws.len() ==> sem(#[trigger] ws[k], env) is Some) ==> #[trigger] sem(s, env) == Some(ssum(ws, env, ws.len() as int)),
        forall|env: Env| #[trigger] lz_ok(c, env) ==> (sem(s, env) matches Some(sv) ==> list_row(is_and, t, sv, ws.len() as int)),
    ensures asserted(c, if is_and { Exp::And(es) } else { Exp::Or(es) }, t)
{
    let e = if is_and { Exp::And(es) } else { Exp::Or(es) };
    let n = ws.len() as int;
    assert forall|env: Env| #[trigger] lz_ok(c, env) implies (sem(e, env) matches Some(v) ==> truthy(v) == t) by {
        assert forall|k: int| 0 <= k < n implies (sem(#[trigger] ws[k], env) == Some(0real) || sem(ws[k], env) == Some(1real)) by {}
        assert(sem(s, env) == Some(ssum(ws, env, n)));
        lemma_ssum_bounds(ws, env, n);
        if t == is_and {
            // every operand has the connective's own polarity
            assert forall|k: int| 0 <= k < n implies (sem(#[trigger] es@[k], env) matches Some(x) ==> truthy(x) == is_and) by { assert(sem(ws[k], env) is Some); }
            lemma_all_uniform(es@, env, is_and, n);
        } else {
            let j = if is_and { lemma_ssum_zero_at(ws, env, n) } else { lemma_ssum_one(ws, env, n) };
            lemma_all_one(es@, env, is_and, n, j);
        }
    }
}
// ----- reified binary connectives (kind 0 = implies, 1 = iff, 2 = xor) -----
pub open spec fn conn2(kind: int, l: Box<Exp>, r: Box<Exp>) -> Exp { if kind == 0 { Exp::Implies(l, r) } else if kind == 1 { Exp::Iff(l, r) } else { Exp::Xor(l, r) } }
pub open spec fn rows2(kind: int, z: real, x: real, y: real) -> bool {
    if kind == 0 { z >= 1real - x && z >= y && z <= 1real - x + y }
    else if kind == 1 { z >= x + y - 1real && z >= 1real - x - y && z <= 1real - x + y && z <= 1real + x - y }
    else { z <= x + y && z >= x - y && z >= y - x && z <= 2real - x - y }
}
pub proof fn lemma_reify2(c: Linearizer, kind: int, l: Box<Exp>, r: Box<Exp>, a: Exp, b: Exp, lc: LinearizationContext, z: Seq<char>, req: ValueRequirement)
    requires
        0 <= kind <= 2,
        forall|env: Env| #[trigger] lz_ok(c, env) ==> (sem(a, env) matches Some(x) && (x == 0real || x == 1real) && (sem(*l, env) matches Some(tl) ==> x == tl)),
        forall|env: Env| #[trigger] lz_ok(c, env) ==> (sem(b, env) matches Some(y) && (y == 0real || y == 1real) && (sem(*r, env) matches Some(tr) ==> y == tr)),
        forall|env: Env| #[trigger] lz_ok(c, env) ==> lc_eval(lc, env) == env[z] && (env[z] == 0real || env[z] == 1real) && rows2(kind, env[z], sem(a, env)->Some_0, sem(b, env)->Some_0),
    ensures forall|env: Env| #[trigger] lz_ok(c, env) ==> (sem(conn2(kind, l, r), env) matches Some(t) ==> relaxes(req, lc_eval(lc, env), t)),
{
    assert forall|env: Env| #[trigger] lz_ok(c, env) implies (sem(conn2(kind, l, r), env) matches Some(t) ==> relaxes(req, lc_eval(lc, env), t)) by {
        lemma_sem_implies(l, r, env); lemma_sem_iff(l, r, env); lemma_sem_xor(l, r, env);
    }
}
// ----- reified n-ary connectives -----
pub proof fn lemma_all_01(es: Seq<Exp>, env: Env, is_and: bool, n: int)
    requires 0 <= n <= es.len()
    ensures sem_all(es, env, is_and, n) matches Some(y) ==> (y == 0real || y == 1real)
{}
pub proof fn lemma_ssum_ones(ws: Seq<Exp>, env: Env, n: int)
    requires 0 <= n <= ws.len(), forall|k: int| 0 <= k < n ==> sem(#[trigger] ws[k], env) == Some(1real)
    ensures ssum(ws, env, n) == n as real
    decreases n
{ if n > 0 { lemma_ssum_ones(ws, env, n - 1); } }
// the rows tying a reified and / or to its operand values: z (<= | >=) every operand, and z (>= sum - (n-1) | <= sum)
pub proof fn lemma_reify_list(c: Linearizer, es: Vec<Exp>, ws: Seq<Exp>, is_and: bool, lc: LinearizationContext, z: Seq<char>, req: ValueRequirement)
    requires
        ws.len() == es@.len(), ws.len() >= 1,
        forall|k: int, env: Env| 0 <= k < ws.len() && #[trigger] lz_ok(c, env) ==> (sem(#[trigger] ws[k], env) matches Some(x) && (x == 0real || x == 1real) && (sem(es@[k], env) matches Some(te) ==> x == te)),
        forall|env: Env| #[trigger] lz_ok(c, env) ==> lc_eval(lc, env) == env[z] && (env[z] == 0real || env[z] == 1real),
        forall|k: int, env: Env| 0 <= k < ws.len() && #[trigger] lz_ok(c, env) ==> (if is_and { env[z] <= sem(#[trigger] ws[k], env)->Some_0 } else { env[z] >= sem(ws[k], env)->Some_0 }),
        forall|env: Env| #[trigger] lz_ok(c, env) ==> (if is_and { env[z] >= ssum(ws, env, ws.len() as int) - (ws.len() as real - 1real) } else { env[z] <= ssum(ws, env, ws.len() as int) }),
    ensures forall|env: Env| #[trigger] lz_ok(c, env) ==> (sem(if is_and { Exp::And(es) } else { Exp::Or(es) }, env) matches Some(t) ==> relaxes(req, lc_eval(lc, env), t)),
{
    let e = if is_and { Exp::And(es) } else { Exp::Or(es) };
    let n = ws.len() as int;
    assert forall|env: Env| #[trigger] lz_ok(c, env) implies (sem(e, env) matches Some(t) ==> relaxes(req, lc_eval(lc, env), t)) by {
        if sem(e, env) is Some {
            let t = sem(e, env)->Some_0;
            lemma_all_01(es@, env, is_and, n);
            assert forall|k: int| 0 <= k < n implies (sem(#[trigger] ws[k], env) == Some(0real) || sem(ws[k], env) == Some(1real)) by {}
            let target = if is_and { 1real } else { 0real };
            if forall|k: int| 0 <= k < n ==> sem(#[trigger] ws[k], env) == Some(target) {
                // every operand has the connective's own polarity
                assert forall|k: int| 0 <= k < n implies (sem(#[trigger] es@[k], env) matches Some(x) ==> truthy(x) == is_and) by { assert(sem(ws[k], env) == Some(target)); }
                lemma_all_uniform(es@, env, is_and, n);
                if is_and { lemma_ssum_ones(ws, env, n); } else { lemma_ssum_zero(ws, env, n); }
            } else {
                let j = choose|j: int| 0 <= j < n && sem(#[trigger] ws[j], env) != Some(target);
                assert(sem(ws[j], env) == Some(0real) || sem(ws[j], env) == Some(1real));
                lemma_all_one(es@, env, is_and, n, j);
            }
        }
    }
}
