// ----- C01 / C08: a named row and its positional layout have the same value (ghost theorem over the contracts of U08.asm; needs vectors.rs, lincontext.rs) -----
// the dense vector that holds, for the first n keys of the named row, the coefficient at the key's position, and 0 elsewhere
pub open spec fn dense_upto(keys: Seq<Seq<char>>, m: Map<Seq<char>, F64>, t: Map<Seq<char>, usize>, width: int, n: int) -> Seq<real>
    decreases n,
{
    if n <= 0 { Seq::new(width as nat, |i: int| 0real) }
    else { dense_upto(keys, m, t, width, n - 1).update(t[keys[n - 1]] as int, rv(m[keys[n - 1]])) }
}
pub proof fn lemma_dot_zero(x: Seq<real>, width: int)
    requires x.len() == width, width >= 0,
    ensures dot(Seq::new(width as nat, |i: int| 0real), x) == 0real,
    decreases width,
{
    let z = Seq::new(width as nat, |i: int| 0real);
    if width > 0 {
        assert(z.drop_last() =~= Seq::new((width - 1) as nat, |i: int| 0real));
        lemma_dot_zero(x.drop_last(), width - 1);
        assert(0real * x.last() == 0real) by (nonlinear_arith);
    }
}
// setting one coefficient (previously c0) to c changes the value by (c - c0) * x[i]
pub proof fn lemma_dot_coef_update(r: Seq<real>, x: Seq<real>, i: int, c: real)
    requires r.len() == x.len(), 0 <= i < r.len(),
    ensures dot(r.update(i, c), x) == dot(r, x) + (c - r[i]) * x[i],
    decreases r.len(),
{
    let r2 = r.update(i, c);
    let l = r.len() - 1;
    if i == l {
        assert(r2.drop_last() =~= r.drop_last());
        assert(c * x[l] == r[l] * x[l] + (c - r[l]) * x[l]) by (nonlinear_arith);
    } else {
        assert(r2.drop_last() =~= r.drop_last().update(i, c));
        lemma_dot_coef_update(r.drop_last(), x.drop_last(), i, c);
        assert(r2.last() == r.last());
    }
}
// value of the partial dense vector = partial named sum, when x reads the assignment by position
pub proof fn lemma_dense_value(keys: Seq<Seq<char>>, m: Map<Seq<char>, F64>, t: Map<Seq<char>, usize>, x: Seq<real>, env: Env, n: int)
    requires 0 <= n <= keys.len(), keys.no_duplicates(),
        forall|j: int| 0 <= j < keys.len() ==> t.dom().contains(#[trigger] keys[j]) && t[keys[j]] < x.len() && x[t[keys[j]] as int] == env[keys[j]],
        forall|a: int, b: int| 0 <= a < b < keys.len() ==> t[keys[a]] != t[keys[b]],
    ensures dense_upto(keys, m, t, x.len() as int, n).len() == x.len(),
        dot(dense_upto(keys, m, t, x.len() as int, n), x) == msum(keys, m, env, n),
        forall|j: int| n <= j < keys.len() ==> dense_upto(keys, m, t, x.len() as int, n)[t[#[trigger] keys[j]] as int] == 0real,
    decreases n,
{
    reveal(rmul_s); reveal(rdiv_s);
    let w = x.len() as int;
    if n == 0 {
        lemma_dot_zero(x, w);
    } else {
        lemma_dense_value(keys, m, t, x, env, n - 1);
        let p = dense_upto(keys, m, t, w, n - 1);
        let i = t[keys[n - 1]] as int;
        assert(p[i] == 0real);
        lemma_dot_coef_update(p, x, i, rv(m[keys[n - 1]]));
        assert forall|j: int| n <= j < keys.len() implies dense_upto(keys, m, t, w, n)[t[#[trigger] keys[j]] as int] == 0real by {
            assert(t[keys[n - 1]] != t[keys[j]]);
            assert(p[t[keys[j]] as int] == 0real);
        }
    }
}
// positions the first n keys do not map to hold 0; position of key j < n holds its coefficient
pub proof fn lemma_dense_entries(keys: Seq<Seq<char>>, m: Map<Seq<char>, F64>, t: Map<Seq<char>, usize>, w: int, n: int)
    requires 0 <= n <= keys.len(), w >= 0,
        forall|j: int| 0 <= j < keys.len() ==> (#[trigger] t[keys[j]]) < w,
        forall|a: int, b: int| 0 <= a < b < keys.len() ==> t[keys[a]] != t[keys[b]],
    ensures dense_upto(keys, m, t, w, n).len() == w,
        forall|j: int| 0 <= j < n ==> dense_upto(keys, m, t, w, n)[#[trigger] t[keys[j]] as int] == rv(m[keys[j]]),
        forall|i: int| 0 <= i < w && (forall|j: int| 0 <= j < n ==> #[trigger] t[keys[j]] != i) ==> #[trigger] dense_upto(keys, m, t, w, n)[i] == 0real,
    decreases n,
{
    if n > 0 {
        lemma_dense_entries(keys, m, t, w, n - 1);
        let p = dense_upto(keys, m, t, w, n - 1);
        let q = dense_upto(keys, m, t, w, n);
        assert forall|j: int| 0 <= j < n implies q[#[trigger] t[keys[j]] as int] == rv(m[keys[j]]) by {
            if j < n - 1 { assert(t[keys[j]] != t[keys[n - 1]]); assert(q[t[keys[j]] as int] == p[t[keys[j]] as int]); }
        }
    }
}
// THE ROW THEOREM of the assembly: the positional row evaluates, at the assignment read by position, to the named row's value
pub proof fn lemma_laid_out_value(lhs: SMap<F64>, t: SMap<usize>, r: Seq<F64>, x: Seq<real>, env: Env)
    requires lhs.wf(), table_wf(t), laid_out(lhs, t, r), fin_seq(r), x.len() == r.len(),
        forall|k: Seq<char>| lhs.has(k) ==> #[trigger] t.has(k),                          // every variable of the row is in the table
        forall|k: Seq<char>| #[trigger] t.has(k) ==> x[t.map()[k] as int] == env[k],        // x is env read by position
    ensures dot(rvs(r), x) == msum(lhs.keys(), lhs.map(), env, lhs.keys().len() as int),
{
    let keys = lhs.keys();
    let n = keys.len() as int;
    let w = x.len() as int;
    assert forall|j: int| 0 <= j < keys.len() implies t.map().dom().contains(#[trigger] keys[j]) && t.map()[keys[j]] < x.len() && x[t.map()[keys[j]] as int] == env[keys[j]] by {
        assert(keys.contains(keys[j])); assert(lhs.has(keys[j])); assert(t.has(keys[j]));
    }
    assert forall|a: int, b: int| 0 <= a < b < keys.len() implies t.map()[keys[a]] != t.map()[keys[b]] by {
        assert(keys.contains(keys[a]) && keys.contains(keys[b])); assert(lhs.has(keys[a]) && lhs.has(keys[b])); assert(t.has(keys[a]) && t.has(keys[b]));
    }
    lemma_dense_value(keys, lhs.map(), t.map(), x, env, n);
    lemma_dense_entries(keys, lhs.map(), t.map(), w, n);
    let d = dense_upto(keys, lhs.map(), t.map(), w, n);
    assert(rvs(r) =~= d) by {
        assert forall|i: int| 0 <= i < w implies rvs(r)[i] == d[i] by {
            if exists|j: int| 0 <= j < n && t.map()[#[trigger] keys[j]] == i {
                let j = choose|j: int| 0 <= j < n && t.map()[#[trigger] keys[j]] == i;
                assert(keys.contains(keys[j])); assert(lhs.has(keys[j]) && t.has(keys[j]));
                assert(r[t.map()[keys[j]] as int] == lhs.map()[keys[j]]);
            } else {
                assert forall|k: Seq<char>| lhs.has(k) && t.has(k) implies #[trigger] t.map()[k] != i by {
                    assert(keys.contains(k)); let j = choose|j: int| 0 <= j < keys.len() && keys[j] == k; assert(t.map()[keys[j]] != i);
                }
                assert(fv(r[i]) == Ext::Fin(0real));
            }
        }
    }
}
