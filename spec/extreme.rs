// ----- ghost oracle for min / max lowering (linearize_extreme) -----
// value of min (is_min) / max over the listed operands: the language's fold
pub open spec fn ext_val(es: Seq<Exp>, env: Env, is_min: bool) -> Option<real> { sem_fold(es, env, is_min, es.len() as int) }
// r encloses the value of e wherever e is defined inside the box
pub open spec fn encl(r: Bounds, e: Exp, b: BoundsAnalyzer) -> bool {
    forall|env: Env| #[trigger] box_ok(b, env) ==> (sem(e, env) matches Some(v) ==> contains(r, v))
}
// operand ranges: NaN-free enclosures of the operands
#[verifier::opaque]
pub open spec fn ob_ok(ob: Seq<Bounds>, es: Seq<Exp>, b: BoundsAnalyzer, n: int) -> bool {
    forall|j: int| 0 <= j < n ==> wf(#[trigger] ob[j]) && encl(ob[j], es[j], b)
}
// operand j makes operand i redundant (the test of the pruning loop)
pub open spec fn dominates(is_min: bool, ob: Seq<Bounds>, j: int, i: int) -> bool {
    let (bi, bj) = (ob[i], ob[j]);
    let other_dominates = if is_min { ext_le(fv(bj.upper), fv(bi.lower)) } else { ext_le(fv(bi.upper), fv(bj.lower)) };
    let equal_fixed = ext_eq(fv(bi.lower), fv(bi.upper)) && ext_eq(fv(bj.lower), fv(bj.upper)) && ext_eq(fv(bi.lower), fv(bj.lower));
    j != i && other_dominates && (!equal_fixed || j < i)
}
pub open spec fn kept(ri: Seq<usize>, i: int) -> bool { exists|k: int| 0 <= k < ri.len() && #[trigger] ri[k] as int == i }
pub open spec fn has_dom(is_min: bool, ob: Seq<Bounds>, n: int, i: int) -> bool { exists|j: int| 0 <= j < n && #[trigger] dominates(is_min, ob, j, i) }
// the retained index list after the first `upto` operands have been examined
#[verifier::opaque]
pub open spec fn ri_ok(is_min: bool, ob: Seq<Bounds>, ri: Seq<usize>, n: int, upto: int) -> bool {
    &&& forall|k: int| 0 <= k < ri.len() ==> (#[trigger] ri[k] as int) < upto
    &&& forall|k: int, l: int| 0 <= k < l < ri.len() ==> (#[trigger] ri[k] as int) < (#[trigger] ri[l] as int)
    &&& forall|k: int, j: int| 0 <= k < ri.len() && 0 <= j < n ==> !#[trigger] dominates(is_min, ob, j, ri[k] as int)
    &&& forall|i: int| 0 <= i < upto ==> #[trigger] kept(ri, i) || has_dom(is_min, ob, n, i)
}
// the operands kept by the pruning, in order
pub open spec fn pick(es: Seq<Exp>, ri: Seq<usize>) -> Seq<Exp> { Seq::new(ri.len(), |k: int| es[ri[k] as int]) }
pub open spec fn pickb(ob: Seq<Bounds>, ri: Seq<usize>) -> Seq<Bounds> { Seq::new(ri.len(), |k: int| ob[ri[k] as int]) }
// the rebuilt expression op of a lowered operand is defined wherever the context's demands hold and relates to the true operand
// value as the operand requirement allows
pub open spec fn op_rel(op: Exp, e: Exp, opreq: ValueRequirement, ctx: Linearizer) -> bool {
    forall|env: Env| #[trigger] lz_ok(ctx, env) ==> sem(op, env) is Some && (sem(e, env) matches Some(tv) ==> relaxes(opreq, sem(op, env)->Some_0, tv))
}
#[verifier::opaque]
pub open spec fn ops_ok(ops: Seq<Exp>, res_: Seq<Exp>, opreq: ValueRequirement, ctx: Linearizer, n: int) -> bool {
    forall|k: int| 0 <= k < n ==> exp_fin(#[trigger] ops[k]) && op_rel(ops[k], res_[k], opreq, ctx)
}
pub proof fn lemma_ops_ok_mono(ops: Seq<Exp>, res_: Seq<Exp>, opreq: ValueRequirement, a: Linearizer, b: Linearizer, n: int)
    requires lz_ext(a, b), ops_ok(ops, res_, opreq, a, n),
    ensures ops_ok(ops, res_, opreq, b, n),
{
    reveal(ops_ok);
    assert forall|k: int| 0 <= k < n implies exp_fin(#[trigger] ops[k]) && op_rel(ops[k], res_[k], opreq, b) by {
        assert(op_rel(ops[k], res_[k], opreq, a));
        assert forall|env: Env| #[trigger] lz_ok(b, env) implies sem(ops[k], env) is Some && (sem(res_[k], env) matches Some(tv) ==> relaxes(opreq, sem(ops[k], env)->Some_0, tv)) by {
            lemma_lz_ext_mono(a, b, env);
        }
    }
}
// one-sided rows: the auxiliary t is on the required side of every lowered operand
#[verifier::opaque]
pub open spec fn one_rows(ops: Seq<Exp>, t: Seq<char>, is_min: bool, ctx: Linearizer, n: int) -> bool {
    forall|k: int, env: Env| 0 <= k < n && #[trigger] lz_ok(ctx, env) ==> (sem(#[trigger] ops[k], env) matches Some(v) && (if is_min { env[t] <= v } else { env[t] >= v }))
}
pub proof fn lemma_one_rows_mono(ops: Seq<Exp>, t: Seq<char>, is_min: bool, a: Linearizer, b: Linearizer, n: int)
    requires lz_ext(a, b), one_rows(ops, t, is_min, a, n),
    ensures one_rows(ops, t, is_min, b, n),
{
    reveal(one_rows);
    assert forall|k: int, env: Env| 0 <= k < n && #[trigger] lz_ok(b, env) implies (sem(#[trigger] ops[k], env) matches Some(v) && (if is_min { env[t] <= v } else { env[t] >= v })) by {
        lemma_lz_ext_mono(a, b, env);
    }
}
// a bound on every operand is a bound on the fold
pub proof fn lemma_fold_bound(es: Seq<Exp>, env: Env, is_min: bool, n: int, x: real)
    requires 0 < n <= es.len(), sem_fold(es, env, is_min, n) is Some,
        forall|k: int| 0 <= k < n ==> (sem(#[trigger] es[k], env) matches Some(v) && (if is_min { x <= v } else { x >= v })),
    ensures is_min ==> x <= sem_fold(es, env, is_min, n)->Some_0, !is_min ==> x >= sem_fold(es, env, is_min, n)->Some_0,
    decreases n,
{
    if n > 1 { lemma_fold_bound(es, env, is_min, n - 1, x); }
}
// every operand of a defined min (max) is defined and not smaller (not larger) than it
pub proof fn lemma_fold_member2(es: Seq<Exp>, env: Env, is_min: bool, n: int, i: int)
    requires 0 <= i < n <= es.len(), sem_fold(es, env, is_min, n) is Some,
    ensures sem(es[i], env) is Some, is_min ==> sem(es[i], env)->Some_0 >= sem_fold(es, env, is_min, n)->Some_0, !is_min ==> sem(es[i], env)->Some_0 <= sem_fold(es, env, is_min, n)->Some_0,
    decreases n,
{
    if n > 1 && i < n - 1 { lemma_fold_member2(es, env, is_min, n - 1, i); }
}
// least index with a property
pub proof fn lemma_least(n: int, p: spec_fn(int) -> bool)
    requires exists|i: int| 0 <= i < n && #[trigger] p(i),
    ensures exists|d: int| 0 <= d < n && #[trigger] p(d) && (forall|j: int| 0 <= j < d ==> !#[trigger] p(j)),
    decreases n,
{
    if n <= 0 { }
    else if exists|i: int| 0 <= i < n - 1 && #[trigger] p(i) { lemma_least(n - 1, p); }
    else {
        assert(p(n - 1));
        assert(forall|j: int| 0 <= j < n - 1 ==> !#[trigger] p(j));
    }
}
// a fold over operands that never pass m (on the relevant side) and attain it somewhere is m
pub proof fn lemma_fold_attained(es: Seq<Exp>, env: Env, is_min: bool, n: int, m: real)
    requires 0 < n <= es.len(),
        forall|k: int| 0 <= k < n ==> (sem(#[trigger] es[k], env) matches Some(v) && (if is_min { m <= v } else { m >= v })),
        exists|k: int| 0 <= k < n && sem(#[trigger] es[k], env) == Some(m),
    ensures sem_fold(es, env, is_min, n) == Some(m),
    decreases n,
{
    if n == 1 { }
    else {
        if exists|k: int| 0 <= k < n - 1 && sem(#[trigger] es[k], env) == Some(m) {
            lemma_fold_attained(es, env, is_min, n - 1, m);
        } else {
            assert(sem(es[n - 1], env) == Some(m));
            // the prefix is defined and stays on the right side of m
            lemma_fold_side(es, env, is_min, n - 1, m);
        }
    }
}
pub proof fn lemma_fold_side(es: Seq<Exp>, env: Env, is_min: bool, n: int, m: real)
    requires 0 < n <= es.len(), forall|k: int| 0 <= k < n ==> (sem(#[trigger] es[k], env) matches Some(v) && (if is_min { m <= v } else { m >= v })),
    ensures sem_fold(es, env, is_min, n) matches Some(f) && (if is_min { m <= f } else { m >= f }),
    decreases n,
{
    if n > 1 { lemma_fold_side(es, env, is_min, n - 1, m); }
}
// PRUNING: dropping dominated operands does not change the extreme inside the box (and keeps it defined).
// Argument: among the operands attaining the extreme m, one is not dominated.  If all were dominated, a dominator of an attaining
// operand attains m too and its range starts (ends) at m; being dominated itself its range is the single point m; the one of
// least index among those single-point operands would need a dominator of smaller index of the same kind: contradiction.
pub proof fn lemma_prune(is_min: bool, es: Seq<Exp>, ob: Seq<Bounds>, ri: Seq<usize>, b: BoundsAnalyzer, env: Env)
    requires ob.len() == es.len(), ob_ok(ob, es, b, es.len() as int), ri_ok(is_min, ob, ri, es.len() as int, es.len() as int), box_ok(b, env), ext_val(es, env, is_min) is Some,
    ensures ri.len() > 0, ext_val(pick(es, ri), env, is_min) == ext_val(es, env, is_min),
{
    reveal(ob_ok); reveal(ri_ok);
    let n = es.len() as int;
    let m = ext_val(es, env, is_min)->Some_0;
    // every operand is defined, lies in its range and does not pass m
    assert forall|i: int| 0 <= i < n implies (sem(#[trigger] es[i], env) matches Some(v) && (if is_min { m <= v } else { m >= v }) && contains(ob[i], v) && wf(ob[i])) by {
        lemma_fold_member2(es, env, is_min, n, i);
        assert(encl(ob[i], es[i], b));
    }
    let val = |i: int| sem(es[i], env)->Some_0;
    lemma_fold_hits(es, env, is_min, n);
    let i0 = choose|i: int| 0 <= i < n && sem(#[trigger] es[i], env) == Some(m);
    // (*) a dominator j of an operand i attaining m attains m, ob[j] starts (max) / ends (min) at m and ob[i] ends / starts at m
    assert forall|i: int, j: int| 0 <= i < n && 0 <= j < n && val(i) == m && #[trigger] dominates(is_min, ob, j, i) implies
        val(j) == m && (if is_min { fv(ob[j].upper) == Ext::Fin(m) && fv(ob[i].lower) == Ext::Fin(m) } else { fv(ob[j].lower) == Ext::Fin(m) && fv(ob[i].upper) == Ext::Fin(m) }) by {
        assert(sem(es[i], env) is Some && sem(es[j], env) is Some);
    }
    // an attaining operand that no operand dominates
    let free = |i: int| 0 <= i < n && val(i) == m && !has_dom(is_min, ob, n, i);
    if !exists|i: int| #[trigger] free(i) {
        // all attaining operands are dominated
        assert(val(i0) == m);
        assert(!free(i0)); assert(has_dom(is_min, ob, n, i0));
        let j1 = choose|j: int| 0 <= j < n && #[trigger] dominates(is_min, ob, j, i0);
        assert(dominates(is_min, ob, j1, i0));
        assert(val(j1) == m);
        assert(!free(j1)); assert(has_dom(is_min, ob, n, j1));
        let j2 = choose|j: int| 0 <= j < n && #[trigger] dominates(is_min, ob, j, j1);
        assert(dominates(is_min, ob, j2, j1));
        // j1 is a single point at m
        let point = |i: int| 0 <= i < n && val(i) == m && fv(ob[i].lower) == Ext::Fin(m) && fv(ob[i].upper) == Ext::Fin(m);
        assert(point(j1));
        lemma_least(n, point);
        let d = choose|d: int| 0 <= d < n && #[trigger] point(d) && (forall|j: int| 0 <= j < d ==> !#[trigger] point(j));
        assert(val(d) == m);
        assert(!free(d)); assert(has_dom(is_min, ob, n, d));
        let j = choose|j: int| 0 <= j < n && #[trigger] dominates(is_min, ob, j, d);
        assert(dominates(is_min, ob, j, d));
        assert(val(j) == m);
        assert(!free(j)); assert(has_dom(is_min, ob, n, j));
        let j3 = choose|k: int| 0 <= k < n && #[trigger] dominates(is_min, ob, k, j);
        assert(dominates(is_min, ob, j3, j));
        assert(point(j));
        assert(j < d);     // equal single points: only a smaller index dominates
        assert(false);
    }
    let r = choose|i: int| #[trigger] free(i);
    assert(kept(ri, r));
    let kr = choose|k: int| 0 <= k < ri.len() && #[trigger] ri[k] as int == r;
    let ps = pick(es, ri);
    assert(ps[kr] == es[r]);
    assert forall|k: int| 0 <= k < ps.len() implies (sem(#[trigger] ps[k], env) matches Some(v) && (if is_min { m <= v } else { m >= v })) by {
        assert(ps[k] == es[ri[k] as int]);
    }
    assert(sem(ps[kr], env) == Some(m));
    lemma_fold_attained(ps, env, is_min, ps.len() as int, m);
}
// a defined fold is attained by one of its operands
pub proof fn lemma_fold_hits(es: Seq<Exp>, env: Env, is_min: bool, n: int)
    requires 0 < n <= es.len(), sem_fold(es, env, is_min, n) is Some,
    ensures exists|i: int| 0 <= i < n && sem(#[trigger] es[i], env) == sem_fold(es, env, is_min, n),
    decreases n,
{
    if n > 1 {
        lemma_fold_hits(es, env, is_min, n - 1);
        let i = choose|i: int| 0 <= i < n - 1 && sem(#[trigger] es[i], env) == sem_fold(es, env, is_min, n - 1);
        let x = sem(es[n - 1], env)->Some_0; let y = sem_fold(es, env, is_min, n - 1)->Some_0;
        if (if is_min { rmin(y, x) } else { rmax(y, x) }) == y { assert(sem(es[i], env) == sem_fold(es, env, is_min, n)); }
        else { assert(sem(es[n - 1], env) == sem_fold(es, env, is_min, n)); }
    } else { assert(sem(es[0], env) == sem_fold(es, env, is_min, n)); }
}
// ----- exact lowering: selectors and big-M rows -----
#[verifier::opaque]
pub open spec fn sel_ok(sels: Seq<Exp>, ctx: Linearizer, n: int) -> bool {
    forall|k: int| 0 <= k < n ==> (#[trigger] sels[k]) is Variable && ctx.domain.has(sels[k]->Variable_0@) && ctx.domain.map()[sels[k]->Variable_0@].as_type is Boolean
}
pub proof fn lemma_sel_ok_mono(sels: Seq<Exp>, a: Linearizer, b: Linearizer, n: int)
    requires lz_ext(a, b), sel_ok(sels, a, n),
    ensures sel_ok(sels, b, n),
{
    reveal(lz_ext); reveal(sel_ok);
    assert forall|k: int| 0 <= k < n implies (#[trigger] sels[k]) is Variable && b.domain.has(sels[k]->Variable_0@) && b.domain.map()[sels[k]->Variable_0@].as_type is Boolean by {
        assert(a.domain.has(sels[k]->Variable_0@));
    }
}
// a selector takes the value 0 or 1 wherever the context's demands hold
pub proof fn lemma_sel_bool(sels: Seq<Exp>, ctx: Linearizer, n: int, env: Env, k: int)
    requires sel_ok(sels, ctx, n), lz_ok(ctx, env), 0 <= k < n,
    ensures env[sels[k]->Variable_0@] == 0real || env[sels[k]->Variable_0@] == 1real, sels[k] is Variable,
{
    reveal(lz_ok); reveal(sel_ok);
    assert(ctx.domain.has(sels[k]->Variable_0@));
}
// the big-M constant of operand k
pub open spec fn big_m(rb: Seq<Bounds>, eb: Bounds, is_min: bool, k: int) -> real {
    if is_min { rv(f_sub(rb[k].upper, eb.lower)) } else { rv(f_sub(eb.upper, rb[k].lower)) }
}
#[verifier::opaque]
pub open spec fn ex_rows(ops: Seq<Exp>, sels: Seq<Exp>, rb: Seq<Bounds>, eb: Bounds, t: Seq<char>, is_min: bool, ctx: Linearizer, n: int) -> bool {
    forall|k: int, env: Env| 0 <= k < n && #[trigger] lz_ok(ctx, env) ==> (sem(#[trigger] ops[k], env) matches Some(v) && ({
        let slack = rmul_s(big_m(rb, eb, is_min, k), 1real - env[sels[k]->Variable_0@]);
        if is_min { env[t] <= v && env[t] >= v - slack } else { env[t] >= v && env[t] <= v + slack } }))
}
pub proof fn lemma_ex_rows_mono(ops: Seq<Exp>, sels: Seq<Exp>, rb: Seq<Bounds>, eb: Bounds, t: Seq<char>, is_min: bool, a: Linearizer, b: Linearizer, n: int)
    requires lz_ext(a, b), ex_rows(ops, sels, rb, eb, t, is_min, a, n),
    ensures ex_rows(ops, sels, rb, eb, t, is_min, b, n),
{
    reveal(ex_rows);
    assert forall|k: int, env: Env| 0 <= k < n && #[trigger] lz_ok(b, env) implies (sem(#[trigger] ops[k], env) matches Some(v) && ({
        let slack = rmul_s(big_m(rb, eb, is_min, k), 1real - env[sels[k]->Variable_0@]);
        if is_min { env[t] <= v && env[t] >= v - slack } else { env[t] >= v && env[t] <= v + slack } })) by {
        lemma_lz_ext_mono(a, b, env);
    }
}
// sum of the values of the first n expressions (all defined)
pub open spec fn ssum(es: Seq<Exp>, env: Env, n: int) -> real
    decreases n,
{
    if n <= 0 || n > es.len() { 0real } else { ssum(es, env, n - 1) + sem(es[n - 1], env)->Some_0 }
}
pub proof fn lemma_ssum_zero(es: Seq<Exp>, env: Env, n: int)
    requires 0 <= n <= es.len(), forall|k: int| 0 <= k < n ==> sem(#[trigger] es[k], env) == Some(0real),
    ensures ssum(es, env, n) == 0real,
    decreases n,
{
    if n > 0 { lemma_ssum_zero(es, env, n - 1); }
}
