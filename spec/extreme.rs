// ----- ghost oracle for min / max lowering (linearize_extreme) -----
// value of min (is_min) / max over the listed operands: the language's fold
pub open spec fn ext_val(es: Seq<Exp>, env: Env, is_min: bool) -> Option<real> { sem_fold(es, env, is_min, es.len() as int) }
// r encloses the value of e wherever e is defined inside the box
pub open spec fn encl(r: Bounds, e: Exp, b: BoundsAnalyzer) -> bool {
    forall|env: Env| #[trigger] box_ok(b, env) ==> (sem(e, env) matches Some(v) ==> contains(r, v))
}
// operand ranges: NaN-free enclosures of the operands
#[verifier::opaque]
pub open spec fn ob_ok(ob: Seq<Bounds>, es: Seq<Exp>, b: BoundsAnalyzer, n: int) -> bool {
    forall|j: int| 0 <= j < n ==> wf(#[trigger] ob[j]) && encl(ob[j], es[j], b)
}
// operand j makes operand i redundant (the test of the pruning loop)
pub open spec fn dominates(is_min: bool, ob: Seq<Bounds>, j: int, i: int) -> bool {
    let (bi, bj) = (ob[i], ob[j]);
    let other_dominates = if is_min { ext_le(fv(bj.upper), fv(bi.lower)) } else { ext_le(fv(bi.upper), fv(bj.lower)) };
    let equal_fixed = ext_eq(fv(bi.lower), fv(bi.upper)) && ext_eq(fv(bj.lower), fv(bj.upper)) && ext_eq(fv(bi.lower), fv(bj.lower));
    j != i && other_dominates && (!equal_fixed || j < i)
}
pub open spec fn kept(ri: Seq<usize>, i: int) -> bool { exists|k: int| 0 <= k < ri.len() && #[trigger] ri[k] as int == i }
pub open spec fn has_dom(is_min: bool, ob: Seq<Bounds>, n: int, i: int) -> bool { exists|j: int| 0 <= j < n && #[trigger] dominates(is_min, ob, j, i) }
// the retained index list after the first `upto` operands have been examined
#[verifier::opaque]
pub open spec fn ri_ok(is_min: bool, ob: Seq<Bounds>, ri: Seq<usize>, n: int, upto: int) -> bool {
    &&& forall|k: int| 0 <= k < ri.len() ==> (#[trigger] ri[k] as int) < upto
    &&& forall|k: int, l: int| 0 <= k < l < ri.len() ==> (#[trigger] ri[k] as int) < (#[trigger] ri[l] as int)
    &&& forall|k: int, j: int| 0 <= k < ri.len() && 0 <= j < n ==> !#[trigger] dominates(is_min, ob, j, ri[k] as int)
    &&& forall|i: int| 0 <= i < upto ==> #[trigger] kept(ri, i) || has_dom(is_min, ob, n, i)
}
// the operands kept by the pruning, in order
pub open spec fn pick(es: Seq<Exp>, ri: Seq<usize>) -> Seq<Exp> { Seq::new(ri.len(), |k: int| es[ri[k] as int]) }
pub open spec fn pickb(ob: Seq<Bounds>, ri: Seq<usize>) -> Seq<Bounds> { Seq::new(ri.len(), |k: int| ob[ri[k] as int]) }
// the rebuilt expression op of a lowered operand is defined wherever the context's demands hold and relates to the true operand
// value as the operand requirement allows
pub open spec fn op_rel(op: Exp, e: Exp, opreq: ValueRequirement, ctx: Linearizer) -> bool {
    forall|env: Env| #[trigger] lz_ok(ctx, env) ==> sem(op, env) is Some && (sem(e, env) matches Some(tv) ==> relaxes(opreq, sem(op, env)->Some_0, tv))
}
#[verifier::opaque]
pub open spec fn ops_ok(ops: Seq<Exp>, res_: Seq<Exp>, opreq: ValueRequirement, ctx: Linearizer, n: int) -> bool {
    forall|k: int| 0 <= k < n ==> exp_fin(#[trigger] ops[k]) && op_rel(ops[k], res_[k], opreq, ctx)
}
pub proof fn lemma_ops_ok_mono(ops: Seq<Exp>, res_: Seq<Exp>, opreq: ValueRequirement, a: Linearizer, b: Linearizer, n: int)
    requires lz_ext(a, b), ops_ok(ops, res_, opreq, a, n),
    ensures ops_ok(ops, res_, opreq, b, n),
{
    reveal(ops_ok);
    assert forall|k: int| 0 <= k < n implies exp_fin(#[trigger] ops[k]) && op_rel(ops[k], res_[k], opreq, b) by {
        assert(op_rel(ops[k], res_[k], opreq, a));
        assert forall|env: Env| #[trigger] lz_ok(b, env) implies sem(ops[k], env) is Some && (sem(res_[k], env) matches Some(tv) ==> relaxes(opreq, sem(ops[k], env)->Some_0, tv)) by {
            lemma_lz_ext_mono(a, b, env);
        }
    }
}
// one-sided rows: the auxiliary t is on the required side of every lowered operand
#[verifier::opaque]
pub open spec fn one_rows(ops: Seq<Exp>, t: Seq<char>, is_min: bool, ctx: Linearizer, n: int) -> bool {
    forall|k: int, env: Env| 0 <= k < n && #[trigger] lz_ok(ctx, env) ==> (sem(#[trigger] ops[k], env) matches Some(v) && (if is_min { env[t] <= v } else { env[t] >= v }))
}
pub proof fn lemma_one_rows_mono(ops: Seq<Exp>, t: Seq<char>, is_min: bool, a: Linearizer, b: Linearizer, n: int)
    requires lz_ext(a, b), one_rows(ops, t, is_min, a, n),
    ensures one_rows(ops, t, is_min, b, n),
{
    reveal(one_rows);
    assert forall|k: int, env: Env| 0 <= k < n && #[trigger] lz_ok(b, env) implies (sem(#[trigger] ops[k], env) matches Some(v) && (if is_min { env[t] <= v } else { env[t] >= v })) by {
        lemma_lz_ext_mono(a, b, env);
    }
}
// a bound on every operand is a bound on the fold
pub proof fn lemma_fold_bound(es: Seq<Exp>, env: Env, is_min: bool, n: int, x: real)
    requires 0 < n <= es.len(), sem_fold(es, env, is_min, n) is Some,
        forall|k: int| 0 <= k < n ==> (sem(#[trigger] es[k], env) matches Some(v) && (if is_min { x <= v } else { x >= v })),
    ensures is_min ==> x <= sem_fold(es, env, is_min, n)->Some_0, !is_min ==> x >= sem_fold(es, env, is_min, n)->Some_0,
    decreases n,
{
    if n > 1 { lemma_fold_bound(es, env, is_min, n - 1, x); }
}
// every operand of a defined min (max) is defined and not smaller (not larger) than it
pub proof fn lemma_fold_member2(es: Seq<Exp>, env: Env, is_min: bool, n: int, i: int)
    requires 0 <= i < n <= es.len(), sem_fold(es, env, is_min, n) is Some,
    ensures sem(es[i], env) is Some, is_min ==> sem(es[i], env)->Some_0 >= sem_fold(es, env, is_min, n)->Some_0, !is_min ==> sem(es[i], env)->Some_0 <= sem_fold(es, env, is_min, n)->Some_0,
    decreases n,
{
    if n > 1 && i < n - 1 { lemma_fold_member2(es, env, is_min, n - 1, i); }
}
// PRUNING: dropping dominated operands does not change the extreme inside the box (and keeps it defined)
pub proof fn lemma_prune(is_min: bool, es: Seq<Exp>, ob: Seq<Bounds>, ri: Seq<usize>, b: BoundsAnalyzer, env: Env)
    requires ob.len() == es.len(), ob_ok(ob, es, b, es.len() as int), ri_ok(is_min, ob, ri, es.len() as int, es.len() as int), box_ok(b, env), ext_val(es, env, is_min) is Some,
    ensures ri.len() > 0, ext_val(pick(es, ri), env, is_min) == ext_val(es, env, is_min),
{
    admit();   // TODO: to be proved (dominance chains end in a retained operand)
}
// ----- exact lowering: selectors and big-M rows -----
#[verifier::opaque]
pub open spec fn sel_ok(sels: Seq<Exp>, ctx: Linearizer, n: int) -> bool {
    forall|k: int| 0 <= k < n ==> (#[trigger] sels[k]) is Variable && ctx.domain.has(sels[k]->Variable_0@) && ctx.domain.map()[sels[k]->Variable_0@].as_type is Boolean
}
pub proof fn lemma_sel_ok_mono(sels: Seq<Exp>, a: Linearizer, b: Linearizer, n: int)
    requires lz_ext(a, b), sel_ok(sels, a, n),
    ensures sel_ok(sels, b, n),
{
    reveal(lz_ext); reveal(sel_ok);
    assert forall|k: int| 0 <= k < n implies (#[trigger] sels[k]) is Variable && b.domain.has(sels[k]->Variable_0@) && b.domain.map()[sels[k]->Variable_0@].as_type is Boolean by {
        assert(a.domain.has(sels[k]->Variable_0@));
    }
}
// a selector takes the value 0 or 1 wherever the context's demands hold
pub proof fn lemma_sel_bool(sels: Seq<Exp>, ctx: Linearizer, n: int, env: Env, k: int)
    requires sel_ok(sels, ctx, n), lz_ok(ctx, env), 0 <= k < n,
    ensures env[sels[k]->Variable_0@] == 0real || env[sels[k]->Variable_0@] == 1real, sels[k] is Variable,
{
    reveal(lz_ok); reveal(sel_ok);
    assert(ctx.domain.has(sels[k]->Variable_0@));
}
// the big-M constant of operand k
pub open spec fn big_m(rb: Seq<Bounds>, eb: Bounds, is_min: bool, k: int) -> real {
    if is_min { rv(f_sub(rb[k].upper, eb.lower)) } else { rv(f_sub(eb.upper, rb[k].lower)) }
}
#[verifier::opaque]
pub open spec fn ex_rows(ops: Seq<Exp>, sels: Seq<Exp>, rb: Seq<Bounds>, eb: Bounds, t: Seq<char>, is_min: bool, ctx: Linearizer, n: int) -> bool {
    forall|k: int, env: Env| 0 <= k < n && #[trigger] lz_ok(ctx, env) ==> (sem(#[trigger] ops[k], env) matches Some(v) && ({
        let slack = rmul_s(big_m(rb, eb, is_min, k), 1real - env[sels[k]->Variable_0@]);
        if is_min { env[t] <= v && env[t] >= v - slack } else { env[t] >= v && env[t] <= v + slack } }))
}
pub proof fn lemma_ex_rows_mono(ops: Seq<Exp>, sels: Seq<Exp>, rb: Seq<Bounds>, eb: Bounds, t: Seq<char>, is_min: bool, a: Linearizer, b: Linearizer, n: int)
    requires lz_ext(a, b), ex_rows(ops, sels, rb, eb, t, is_min, a, n),
    ensures ex_rows(ops, sels, rb, eb, t, is_min, b, n),
{
    reveal(ex_rows);
    assert forall|k: int, env: Env| 0 <= k < n && #[trigger] lz_ok(b, env) implies (sem(#[trigger] ops[k], env) matches Some(v) && ({
        let slack = rmul_s(big_m(rb, eb, is_min, k), 1real - env[sels[k]->Variable_0@]);
        if is_min { env[t] <= v && env[t] >= v - slack } else { env[t] >= v && env[t] <= v + slack } })) by {
        lemma_lz_ext_mono(a, b, env);
    }
}
// sum of the values of the first n expressions (all defined)
pub open spec fn ssum(es: Seq<Exp>, env: Env, n: int) -> real
    decreases n,
{
    if n <= 0 || n > es.len() { 0real } else { ssum(es, env, n - 1) + sem(es[n - 1], env)->Some_0 }
}
pub proof fn lemma_ssum_zero(es: Seq<Exp>, env: Env, n: int)
    requires 0 <= n <= es.len(), forall|k: int| 0 <= k < n ==> sem(#[trigger] es[k], env) == Some(0real),
    ensures ssum(es, env, n) == 0real,
    decreases n,
{
    if n > 0 { lemma_ssum_zero(es, env, n - 1); }
}
