// ----- ghost oracle: unsafe divisions (C10) -----
// a division by zero or by a non-constant occurs somewhere in the expression (C10: such a division is never rewritten away)
#[verifier::opaque]
pub open spec fn bad_div(e: Exp) -> bool
    decreases e,
{
    match e {
        Exp::Number(_) | Exp::Variable(_) => false,
        Exp::Abs(i) | Exp::Not(i) | Exp::UnOp(_, i) => bad_div(*i),
        Exp::Min(es) => exists|i: int| 0 <= i < es@.len() && bad_div(#[trigger] es@[i]),
        Exp::Max(es) => exists|i: int| 0 <= i < es@.len() && bad_div(#[trigger] es@[i]),
        Exp::And(es) => exists|i: int| 0 <= i < es@.len() && bad_div(#[trigger] es@[i]),
        Exp::Or(es) => exists|i: int| 0 <= i < es@.len() && bad_div(#[trigger] es@[i]),
        Exp::Xor(a, b) | Exp::Implies(a, b) | Exp::Iff(a, b) => bad_div(*a) || bad_div(*b),
        Exp::BinOp(op, a, b) => (op is Div && !(*b matches Exp::Number(v) && !ext_eq(fv(v), Ext::Fin(0real)))) || bad_div(*a) || bad_div(*b),
    }
}
pub proof fn lemma_bad_div(e: Exp)
    ensures
        e is Number ==> !bad_div(e),
        e is Variable ==> !bad_div(e),
        e matches Exp::Abs(i) ==> bad_div(e) == bad_div(*i),
        e matches Exp::Not(i) ==> bad_div(e) == bad_div(*i),
        e matches Exp::UnOp(_, i) ==> bad_div(e) == bad_div(*i),
        e matches Exp::Xor(a, b) ==> bad_div(e) == (bad_div(*a) || bad_div(*b)),
        e matches Exp::Implies(a, b) ==> bad_div(e) == (bad_div(*a) || bad_div(*b)),
        e matches Exp::Iff(a, b) ==> bad_div(e) == (bad_div(*a) || bad_div(*b)),
        e matches Exp::BinOp(op, a, b) ==> bad_div(e) == ((op is Div && !(*b matches Exp::Number(v) && !ext_eq(fv(v), Ext::Fin(0real)))) || bad_div(*a) || bad_div(*b)),
{ reveal_with_fuel(bad_div, 1); }
// arithmetic fragment: numbers, variables, + - * /, unary minus, abs (no min / max / logic): here "undefined" can only mean a division by zero
pub open spec fn arith(e: Exp) -> bool
    decreases e,
{
    match e {
        Exp::Number(_) => true,
        Exp::Variable(_) => true,
        Exp::Abs(i) => arith(*i),
        Exp::UnOp(op, i) => op is Neg && arith(*i),
        Exp::BinOp(op, a, b) => (op is Add || op is Sub || op is Mul || op is Div) && arith(*a) && arith(*b),
        _ => false,
    }
}
// without an unsafe division an arithmetic expression with finite constants is defined at every assignment
pub proof fn lemma_safe_defined(e: Exp, env: Env)
    requires arith(e), exp_fin(e), !bad_div(e),
    ensures sem(e, env) is Some,
    decreases e,
{
    lemma_bad_div(e); lemma_exp_fin(e);
    match e {
        Exp::Abs(i) => { lemma_safe_defined(*i, env); }
        Exp::UnOp(_, i) => { lemma_safe_defined(*i, env); }
        Exp::BinOp(op, a, b) => {
            lemma_safe_defined(*a, env); lemma_safe_defined(*b, env); lemma_exp_fin(*b);
        }
        _ => {}
    }
}
