// ----- ghost facts about the constraint queue of the lowering context -----
// popping the front constraint: the context demanded exactly what the shorter context demands plus that constraint
pub proof fn lemma_pop(a: Linearizer, b: Linearizer, c: Constraint)
    requires a.constraints@ == seq![c] + b.constraints@, a.linear_constraints == b.linear_constraints, a.domain == b.domain, a.bounds == b.bounds,
    ensures lz_inv(a) ==> lz_inv(b) && c_fin(c), forall|env: Env| #[trigger] lz_ok(a, env) <==> lz_ok(b, env) && c_holds_w(c, env),
{
    reveal(lz_inv); reveal(lz_ok);
    assert forall|x: Constraint| #[trigger] a.constraints@.contains(x) <==> (x == c || b.constraints@.contains(x)) by {
        if a.constraints@.contains(x) { let j = choose|j: int| 0 <= j < a.constraints@.len() && a.constraints@[j] == x; if j > 0 { assert(b.constraints@[j - 1] == x); } }
        if x == c { assert(a.constraints@[0] == x); }
        if b.constraints@.contains(x) { let j = choose|j: int| 0 <= j < b.constraints@.len() && b.constraints@[j] == x; assert(a.constraints@[j + 1] == x); }
    }
    assert forall|env: Env| #[trigger] lz_ok(a, env) <==> lz_ok(b, env) && c_holds_w(c, env) by {
        if lz_ok(a, env) { assert(a.constraints@.contains(c)); assert forall|x: Constraint| #[trigger] b.constraints@.contains(x) implies c_holds_w(x, env) by { assert(a.constraints@.contains(x)); } }
    }
    if lz_inv(a) { assert(a.constraints@.contains(c)); assert forall|x: Constraint| #[trigger] b.constraints@.contains(x) implies c_fin(x) by { assert(a.constraints@.contains(x)); } }
}
// invariant of the constraint loop: every originally queued constraint is either still queued or already lowered, and whatever
// the current context demands implies every constraint lowered so far
pub open spec fn loop_inv(q0: Seq<Constraint>, popped: Seq<Constraint>, ctx: Linearizer) -> bool {
    &&& forall|c: Constraint| #[trigger] q0.contains(c) ==> popped.contains(c) || ctx.constraints@.contains(c)
    &&& forall|env: Env, c: Constraint| #[trigger] lz_ok(ctx, env) && #[trigger] popped.contains(c) ==> c_holds_w(c, env)
}
// one iteration: c was popped from a (giving b), then lowered (giving d, which demands at least what b demands and implies c)
pub proof fn lemma_step(q0: Seq<Constraint>, popped: Seq<Constraint>, a: Linearizer, b: Linearizer, d: Linearizer, c: Constraint)
    requires loop_inv(q0, popped, a),
        a.constraints@ == seq![c] + b.constraints@, a.linear_constraints == b.linear_constraints, a.domain == b.domain, a.bounds == b.bounds,
        lz_ext(b, d), forall|env: Env| #[trigger] lz_ok(d, env) ==> c_holds_w(c, env),
    ensures loop_inv(q0, popped.push(c), d),
{
    lemma_pop(a, b, c);
    let p2 = popped.push(c);
    assert forall|x: Constraint| #[trigger] q0.contains(x) implies p2.contains(x) || d.constraints@.contains(x) by {
        if popped.contains(x) { let j = choose|j: int| 0 <= j < popped.len() && popped[j] == x; assert(p2[j] == x); }
        else {
            assert(a.constraints@.contains(x));
            let j = choose|j: int| 0 <= j < a.constraints@.len() && a.constraints@[j] == x;
            if j == 0 { assert(p2[popped.len() as int] == x); }
            else { assert(b.constraints@[j - 1] == x); assert(b.constraints@.contains(x)); reveal(lz_ext); }
        }
    }
    assert forall|env: Env, x: Constraint| #[trigger] lz_ok(d, env) && #[trigger] p2.contains(x) implies c_holds_w(x, env) by {
        lemma_lz_ext_mono(b, d, env);
        assert(lz_ok(a, env));
        let j = choose|j: int| 0 <= j < p2.len() && p2[j] == x;
        if j < popped.len() { assert(popped[j] == x); assert(popped.contains(x)); }
    }
}
// two contexts with the same queue contents, rows, domain and range box demand the same
pub proof fn lemma_lz_same_view(a: Linearizer, b: Linearizer)
    requires a.constraints@ == b.constraints@, a.linear_constraints == b.linear_constraints, a.domain == b.domain, a.bounds == b.bounds,
    ensures lz_inv(a) == lz_inv(b), forall|env: Env| #[trigger] lz_ok(b, env) == lz_ok(a, env),
{ reveal(lz_inv); reveal(lz_ok); }
