// ===================================================================================
// GHOST oracle for C08 row names
// ===================================================================================
/// names of the rows, as character sequences
pub open spec fn row_names(v: Seq<MidLinearConstraint>) -> Seq<Seq<char>> { v.map_values(|c: MidLinearConstraint| c.name@) }
pub open spec fn nm(v: Seq<MidLinearConstraint>, j: int) -> Seq<char> { v[j].name@ }
/// non-empty names among the first n rows are pairwise distinct
pub open spec fn names_distinct(names: Seq<Seq<char>>, n: int) -> bool {
    forall|i: int, j: int| 0 <= i < j < n && j < names.len() && (#[trigger] names[i]).len() > 0 && (#[trigger] names[j]).len() > 0 ==> names[i] != names[j]
}
/// index i is the first row carrying its name
pub open spec fn first_use(names: Seq<Seq<char>>, i: int) -> bool { forall|j: int| 0 <= j < i ==> #[trigger] names[j] != names[i] }
/// everything but the name of each row is as before; emptiness of the name is as before
pub open spec fn dd_frame(v: Seq<MidLinearConstraint>, o: Seq<MidLinearConstraint>) -> bool {
    &&& v.len() == o.len()
    &&& forall|j: int| 0 <= j < v.len() ==> (#[trigger] v[j]).lhs == o[j].lhs && v[j].rhs == o[j].rhs && v[j].comparison == o[j].comparison
            && (v[j].name@.len() == 0 <==> o[j].name@.len() == 0)
}
/// state of the de-duplication after the first n rows
pub open spec fn dd_inv(v: Seq<MidLinearConstraint>, o: Seq<MidLinearConstraint>, assigned: Set<Seq<char>>, src: Set<Seq<char>>, n: int) -> bool {
    &&& dd_frame(v, o)
    &&& 0 <= n <= v.len()
    &&& forall|j: int| n <= j < v.len() ==> #[trigger] nm(v, j) == nm(o, j)
    &&& forall|j: int| 0 <= j < n && nm(v, j).len() > 0 ==> assigned.contains(#[trigger] nm(v, j))
    &&& forall|s: Seq<char>| #[trigger] assigned.contains(s) ==> s.len() > 0 && exists|j: int| 0 <= j < n && #[trigger] nm(v, j) == s
    &&& forall|j: int| 0 <= j < n ==> #[trigger] nm(v, j) == nm(o, j) || !src.contains(nm(v, j))
    &&& forall|i: int, j: int| 0 <= i < j < n && nm(v, i).len() > 0 ==> #[trigger] nm(v, i) != #[trigger] nm(v, j)
    &&& forall|j: int| 0 <= j < n && first_use(row_names(o), j) ==> #[trigger] nm(v, j) == nm(o, j)
}
// k is the name of one of the first `upto` rows
pub open spec fn named_before(v: Seq<MidLinearConstraint>, upto: int, k: Seq<char>) -> bool { exists|j: int| 0 <= j < upto && #[trigger] nm(v, j) == k }
