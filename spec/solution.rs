// ----- ghost meaning of name-based read-back (C16): the value of `name` in an assignment list is the value of the FIRST entry
// carrying that name (scanning the first n entries) -----
pub open spec fn first_val<T>(a: Seq<Assignment<T>>, name: Seq<char>, n: int) -> Option<T>
    decreases n
{
    if n <= 0 { None }
    else { match first_val(a, name, n - 1) { Some(v) => Some(v), None => if a[n - 1].name@ == name { Some(a[n - 1].value) } else { None } } }
}
// the by-name index of a solution agrees with its assignment list
pub open spec fn idx_agrees<T>(m: SMap<T>, a: Seq<Assignment<T>>, n: int) -> bool {
    &&& m.wf()
    &&& forall|name: Seq<char>| #[trigger] m.has(name) <==> first_val(a, name, n) is Some
    &&& forall|name: Seq<char>| #[trigger] m.has(name) ==> Some(m.map()[name]) == first_val(a, name, n)
}
pub open spec fn sol_wf<T>(s: LpSolution<T>) -> bool { idx_agrees(s.assignment_by_name, s.assignment@, s.assignment@.len() as int) }
