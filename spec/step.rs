// ----- ghost oracle: one simplex step (DESIGN §5 C14); needs vectors.rs, tableau.rs, tolerance.rs -----
// the leaving row t and its ratio are a valid answer of the ratio test for entering column h
pub open spec fn ratio_ok(s: Tableau, h: int, t: int, ratio: F64) -> bool {
    &&& 0 <= t < s.a.len()
    &&& t_gt(rv(s.a[t][h]), 0real, EPS())
    &&& fv(ratio) is Fin && rv(ratio) == rv(s.b[t]) / rv(s.a[t][h])
    &&& forall|i: int| 0 <= i < s.a.len() && t_gt(rv((#[trigger] s.a[i])[h]), 0real, EPS()) ==> !t_lt(rv(s.b[i]) / rv(s.a[i][h]), rv(ratio), EPS())
}
pub open spec fn no_improving_column(s: Tableau) -> bool {
    forall|j: int| 0 <= j < s.c.len() ==> s.in_basis@.contains(j as usize) || !t_lt(rv(#[trigger] s.c[j]), 0real, EPS())
}
pub open spec fn unbounded_witness(s: Tableau, h: int) -> bool {
    &&& 0 <= h < s.c.len() && !s.in_basis@.contains(h as usize)
    &&& t_lt(rv(s.c[h]), 0real, EPS())
    &&& forall|i: int| 0 <= i < s.a.len() ==> !t_gt(rv((#[trigger] s.a[i])[h]), 0real, EPS())
}
// the step relation established by Tableau::pivot (its proved postcondition, restated as one predicate)
pub open spec fn pivoted(o: Tableau, f: Tableau, t: int, h: int) -> bool {
    &&& f.a.len() == o.a.len() && f.c.len() == o.c.len()
    &&& f.in_basis@ == o.in_basis@.update(t, h as usize)
    &&& f.flip_result == o.flip_result && f.value_offset == o.value_offset && f.variables == o.variables
    &&& forall|x: Seq<real>| x.len() == o.c.len() ==> (#[trigger] sat(f.a@, f.b@, x) <==> sat(o.a@, o.b@, x))
    &&& unit_col(f.a@, h, t)
    &&& forall|j: int, r: int| 0 <= j < o.c.len() && 0 <= r < o.a.len() && r != t && #[trigger] unit_col(o.a@, j, r) ==> unit_col(f.a@, j, r)
    &&& rv(f.c[h]) == 0real
    &&& forall|x: Seq<real>| x.len() == o.c.len() && #[trigger] sat(o.a@, o.b@, x) ==> obj(f.c@, f.current_value, x) == obj(o.c@, o.current_value, x)
    &&& rv(f.current_value) == rv(o.current_value) - (rv(o.c[h]) / rv(o.a[t][h])) * rv(o.b[t])
    &&& rv(f.b[t]) == rv(o.b[t]) / rv(o.a[t][h])
    &&& forall|i: int| 0 <= i < o.a.len() && i != t ==> rv(#[trigger] f.b[i]) == rv(o.b[i]) - (rv(o.a[i][h]) / rv(o.a[t][h])) * rv(o.b[t])
}
// ---- consequences of one Pivot step (ghost lemmas over the contracts above) ----
// monotonicity: with a non-negative right-hand side in the leaving row the tableau value never decreases,
// i.e. the minimised objective  -value  never gets worse
pub proof fn lemma_step_monotone(o: Tableau, f: Tableau, t: int, h: int, ratio: F64)
    requires tab_wf(o), 0 <= h < o.c.len(), t_lt(rv(o.c[h]), 0real, EPS()), ratio_ok(o, h, t, ratio), pivoted(o, f, t, h), rv(o.b[t]) >= 0real,
    ensures rv(f.current_value) >= rv(o.current_value),
{
    reveal(rmul_s); reveal(rdiv_s);
    let ch = rv(o.c[h]); let p = rv(o.a[t][h]); let bt = rv(o.b[t]);
    assert(ch < 0real && p > 0real);
    assert((ch / p) * bt <= 0real) by (nonlinear_arith) requires ch < 0real, p > 0real, bt >= 0real;
}
// feasibility up to the tolerance the ratio test uses: rows whose entry in the entering column is not
// positive keep b >= old b; the leaving row gets b/p >= 0; eligible rows stay >= -EPS * a[i][h]
pub proof fn lemma_step_feasible(o: Tableau, f: Tableau, t: int, h: int, ratio: F64)
    requires tab_wf(o), 0 <= h < o.c.len(), ratio_ok(o, h, t, ratio), pivoted(o, f, t, h),
        forall|i: int| 0 <= i < o.a.len() ==> rv(#[trigger] o.b[i]) >= 0real,
    ensures
        rv(f.b[t]) >= 0real,
        forall|i: int| 0 <= i < o.a.len() && i != t && rv(o.a[i][h]) <= 0real ==> rv(#[trigger] f.b[i]) >= rv(o.b[i]),
        forall|i: int| 0 <= i < o.a.len() && i != t && t_gt(rv(o.a[i][h]), 0real, EPS()) ==> rv(#[trigger] f.b[i]) >= -EPS() * rv(o.a[i][h]),
{
    reveal(rmul_s); reveal(rdiv_s);
    let p = rv(o.a[t][h]); let bt = rv(o.b[t]);
    assert(p > 0real);
    assert(bt / p >= 0real) by (nonlinear_arith) requires bt >= 0real, p > 0real;
    assert forall|i: int| 0 <= i < o.a.len() && i != t && rv(o.a[i][h]) <= 0real implies rv(#[trigger] f.b[i]) >= rv(o.b[i]) by {
        let q = rv(o.a[i][h]);
        assert((q / p) * bt <= 0real) by (nonlinear_arith) requires q <= 0real, p > 0real, bt >= 0real;
    }
    assert forall|i: int| 0 <= i < o.a.len() && i != t && t_gt(rv(o.a[i][h]), 0real, EPS()) implies rv(#[trigger] f.b[i]) >= -EPS() * rv(o.a[i][h]) by {
        let q = rv(o.a[i][h]); let bi = rv(o.b[i]); let r = rv(ratio);
        assert(!t_lt(bi / q, r, EPS()));
        assert(q > 0real);
        assert(r == bt / p);
        // bi/q > r - EPS  ==>  bi - q*r > -EPS*q
        assert(bi / q >= r - EPS());
        assert(bi - (q / p) * bt >= -EPS() * q) by (nonlinear_arith) requires bi / q >= bt / p - EPS(), q > 0real, p > 0real;
    }
}
