// ----- ghost oracle: meaning of expressions and constraints (DESIGN §4).  Written from the language
// documentation and the property statements, independent of the code under verification. -----
pub open spec fn truthy(x: real) -> bool { x != 0real }
pub open spec fn b2r(b: bool) -> real { if b { 1real } else { 0real } }
pub open spec fn sem_abs(x: real) -> real { if x >= 0real { x } else { -x } }
pub open spec fn rmin(a: real, b: real) -> real { if a <= b { a } else { b } }
pub open spec fn rmax(a: real, b: real) -> real { if a >= b { a } else { b } }
pub open spec fn sem_binop(op: BinOp, a: real, b: real) -> Option<real> {
    match op {
        BinOp::Add => Some(a + b),
        BinOp::Sub => Some(a - b),
        BinOp::Mul => Some(rmul_s(a, b)),
        BinOp::Div => if b == 0real { None } else { Some(rdiv_s(a, b)) },
        BinOp::And => Some(b2r(truthy(a) && truthy(b))),
        BinOp::Or => Some(b2r(truthy(a) || truthy(b))),
        BinOp::Xor => Some(b2r(truthy(a) != truthy(b))),
        BinOp::Implies => Some(b2r(!truthy(a) || truthy(b))),
        BinOp::Iff => Some(b2r(truthy(a) == truthy(b))),
    }
}
// value of an expression at an assignment; None = undefined (division by zero, empty min/max, non-finite constant)
pub open spec fn sem(e: Exp, env: Env) -> Option<real>
    decreases e,
{
    match e {
        Exp::Number(v) => if fv(v) is Fin { Some(rv(v)) } else { None },
        Exp::Variable(name) => Some(env[name@]),
        Exp::Abs(inner) => match sem(*inner, env) { Some(x) => Some(sem_abs(x)), None => None },
        Exp::Min(es) => sem_fold(es@, env, true, es@.len() as int),
        Exp::Max(es) => sem_fold(es@, env, false, es@.len() as int),
        Exp::And(es) => sem_all(es@, env, true, es@.len() as int),
        Exp::Or(es) => sem_all(es@, env, false, es@.len() as int),
        Exp::Not(inner) => match sem(*inner, env) { Some(x) => Some(b2r(!truthy(x))), None => None },
        Exp::Xor(a, b) => match (sem(*a, env), sem(*b, env)) { (Some(x), Some(y)) => sem_binop(BinOp::Xor, x, y), _ => None },
        Exp::Implies(a, b) => match (sem(*a, env), sem(*b, env)) { (Some(x), Some(y)) => sem_binop(BinOp::Implies, x, y), _ => None },
        Exp::Iff(a, b) => match (sem(*a, env), sem(*b, env)) { (Some(x), Some(y)) => sem_binop(BinOp::Iff, x, y), _ => None },
        Exp::BinOp(op, a, b) => match (sem(*a, env), sem(*b, env)) { (Some(x), Some(y)) => sem_binop(op, x, y), _ => None },
        Exp::UnOp(op, inner) => match sem(*inner, env) {
            Some(x) => match op { UnOp::Neg => Some(-x), UnOp::Not => Some(b2r(!truthy(x))) },
            None => None,
        },
    }
}
// min (is_min) or max of the first n operands; None when n == 0 or an operand is undefined
pub open spec fn sem_fold(es: Seq<Exp>, env: Env, is_min: bool, n: int) -> Option<real>
    decreases es, n,
{
    if n <= 0 || n > es.len() { None }
    else {
        match sem(es[n - 1], env) {
            None => None,
            Some(x) => if n == 1 { Some(x) } else {
                match sem_fold(es, env, is_min, n - 1) { None => None, Some(y) => Some(if is_min { rmin(y, x) } else { rmax(y, x) }) }
            },
        }
    }
}
// conjunction (is_and) / disjunction of the first n operands as 0/1; empty and = 1, empty or = 0
pub open spec fn sem_all(es: Seq<Exp>, env: Env, is_and: bool, n: int) -> Option<real>
    decreases es, n,
{
    if n <= 0 || n > es.len() { Some(b2r(is_and)) }
    else {
        match (sem(es[n - 1], env), sem_all(es, env, is_and, n - 1)) {
            (Some(x), Some(y)) => Some(b2r(if is_and { truthy(y) && truthy(x) } else { truthy(y) || truthy(x) })),
            _ => None,
        }
    }
}
pub open spec fn cmp_sem(c: Comparison, l: real, r: real) -> bool {
    match c {
        Comparison::LessOrEqual | Comparison::Less => l <= r,       // strict comparisons are read as non-strict, as the compiler and the MILP back ends do
        Comparison::GreaterOrEqual | Comparison::Greater => l >= r,
        Comparison::Equal => l == r,
    }
}
// PreferLower: the linear value may only err upwards (the optimiser / comparison pushes it down onto the true value)
pub open spec fn relaxes(req: ValueRequirement, v_lin: real, v_true: real) -> bool {
    match req {
        ValueRequirement::Exact => v_lin == v_true,
        ValueRequirement::PreferLower => v_lin >= v_true,
        ValueRequirement::PreferHigher => v_lin <= v_true,
    }
}
// one-step unfoldings as broadcast facts (cheaper than raising the fuel of the big recursive definition)
pub broadcast proof fn lemma_sem_number(v: F64, env: Env)
    ensures #[trigger] sem(Exp::Number(v), env) == (if fv(v) is Fin { Some(rv(v)) } else { None::<real> }),
{}
pub broadcast proof fn lemma_sem_variable(name: String, env: Env)
    ensures #[trigger] sem(Exp::Variable(name), env) == Some(env[name@]),
{}
pub broadcast proof fn lemma_sem_binop(op: BinOp, a: Box<Exp>, b: Box<Exp>, env: Env)
    ensures #[trigger] sem(Exp::BinOp(op, a, b), env) == (match (sem(*a, env), sem(*b, env)) { (Some(x), Some(y)) => sem_binop(op, x, y), _ => None::<real> }),
{}
pub broadcast proof fn lemma_sem_unop(op: UnOp, a: Box<Exp>, env: Env)
    ensures #[trigger] sem(Exp::UnOp(op, a), env) == (match sem(*a, env) { Some(x) => (match op { UnOp::Neg => Some(-x), UnOp::Not => Some(b2r(!truthy(x))) }), None => None::<real> }),
{}
pub broadcast group semx { lemma_sem_number, lemma_sem_variable }
pub broadcast group semx2 { lemma_sem_number, lemma_sem_variable, lemma_sem_binop, lemma_sem_unop }
// all numeric literals of an expression are finite (the precondition under which C08's "finite coefficients" holds)
#[verifier::opaque]
pub open spec fn exp_fin(e: Exp) -> bool
    decreases e,
{
    match e {
        Exp::Number(v) => fv(v) is Fin,
        Exp::Variable(_) => true,
        Exp::Abs(i) | Exp::Not(i) | Exp::UnOp(_, i) => exp_fin(*i),
        Exp::Min(es) => forall|i: int| 0 <= i < es@.len() ==> exp_fin(#[trigger] es@[i]),
        Exp::Max(es) => forall|i: int| 0 <= i < es@.len() ==> exp_fin(#[trigger] es@[i]),
        Exp::And(es) => forall|i: int| 0 <= i < es@.len() ==> exp_fin(#[trigger] es@[i]),
        Exp::Or(es) => forall|i: int| 0 <= i < es@.len() ==> exp_fin(#[trigger] es@[i]),
        Exp::Xor(a, b) | Exp::Implies(a, b) | Exp::Iff(a, b) | Exp::BinOp(_, a, b) => exp_fin(*a) && exp_fin(*b),
    }
}
// one-level unfolding of the (opaque) finiteness predicate
pub proof fn lemma_exp_fin(e: Exp)
    ensures
        e matches Exp::Number(v) ==> exp_fin(e) == (fv(v) is Fin),
        e is Variable ==> exp_fin(e),
        e matches Exp::Abs(i) ==> exp_fin(e) == exp_fin(*i),
        e matches Exp::Not(i) ==> exp_fin(e) == exp_fin(*i),
        e matches Exp::UnOp(_, i) ==> exp_fin(e) == exp_fin(*i),
        e matches Exp::BinOp(_, a, b) ==> exp_fin(e) == (exp_fin(*a) && exp_fin(*b)),
        e matches Exp::Xor(a, b) ==> exp_fin(e) == (exp_fin(*a) && exp_fin(*b)),
        e matches Exp::Implies(a, b) ==> exp_fin(e) == (exp_fin(*a) && exp_fin(*b)),
        e matches Exp::Iff(a, b) ==> exp_fin(e) == (exp_fin(*a) && exp_fin(*b)),
{ reveal_with_fuel(exp_fin, 1); }
// the list variants (kept apart from lemma_exp_fin: only the units that lower min / max / and / or need it)
pub proof fn lemma_exp_fin_list(e: Exp)
    requires exp_fin(e),
    ensures
        e matches Exp::Min(es) ==> (forall|k: int| 0 <= k < es@.len() ==> exp_fin(#[trigger] es@[k])),
        e matches Exp::Max(es) ==> (forall|k: int| 0 <= k < es@.len() ==> exp_fin(#[trigger] es@[k])),
        e matches Exp::And(es) ==> (forall|k: int| 0 <= k < es@.len() ==> exp_fin(#[trigger] es@[k])),
        e matches Exp::Or(es) ==> (forall|k: int| 0 <= k < es@.len() ==> exp_fin(#[trigger] es@[k])),
{ reveal_with_fuel(exp_fin, 1); }
pub proof fn lemma_exp_fin_list_intro(e: Exp)
    requires
        e matches Exp::Min(es) ==> (forall|k: int| 0 <= k < es@.len() ==> exp_fin(#[trigger] es@[k])),
        e matches Exp::Max(es) ==> (forall|k: int| 0 <= k < es@.len() ==> exp_fin(#[trigger] es@[k])),
        e is Min || e is Max,
    ensures exp_fin(e),
{ reveal_with_fuel(exp_fin, 1); }
// one-step unfoldings for the structural logic variants (plain lemmas: call them where needed)
pub proof fn lemma_sem_not(a: Box<Exp>, env: Env)
    ensures sem(Exp::Not(a), env) == (match sem(*a, env) { Some(x) => Some(b2r(!truthy(x))), None => None::<real> }) {}
pub proof fn lemma_sem_xor(a: Box<Exp>, b: Box<Exp>, env: Env)
    ensures sem(Exp::Xor(a, b), env) == (match (sem(*a, env), sem(*b, env)) { (Some(x), Some(y)) => sem_binop(BinOp::Xor, x, y), _ => None::<real> }) {}
pub proof fn lemma_sem_implies(a: Box<Exp>, b: Box<Exp>, env: Env)
    ensures sem(Exp::Implies(a, b), env) == (match (sem(*a, env), sem(*b, env)) { (Some(x), Some(y)) => sem_binop(BinOp::Implies, x, y), _ => None::<real> }) {}
pub proof fn lemma_sem_iff(a: Box<Exp>, b: Box<Exp>, env: Env)
    ensures sem(Exp::Iff(a, b), env) == (match (sem(*a, env), sem(*b, env)) { (Some(x), Some(y)) => sem_binop(BinOp::Iff, x, y), _ => None::<real> }) {}
