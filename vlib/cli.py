import concurrent.futures as cf
import json
import os
import re
import sys
import time

from . import runner as R
from . import kani as K

ROOT = R.ROOT
OUT = os.environ.get("VERIF_OUT", ROOT)
KNOWN = os.path.join(ROOT, "known-findings.txt")


def load_known():
    """known: property=Cnn obligation=<unit>/<fn> clause=<text> :: <what fails>"""
    out = []
    if not os.path.exists(KNOWN):
        return out
    for line in open(KNOWN):
        line = line.strip()
        if not line.startswith("known:"):
            continue
        body, _, what = line[len("known:"):].partition(" :: ")
        body = body.strip()
        inp = None
        mi = re.search(r"\s+input=(\{.*\})\s*$", body)      # optional: the specific failing input (a JSON object; every key must match)
        if mi:
            try:
                inp = json.loads(mi.group(1))
            except Exception:
                continue
            body = body[:mi.start()]
        m = re.match(r"\s*property=(\S+)\s+obligation=(\S+)(?:\s+clause=(.*))?$", body.strip())
        if not m:
            continue
        out.append({"property": m.group(1), "obligation": m.group(2), "clause": R.normtxt(m.group(3) or ""), "input": inp, "what": what.strip()})
    return out


def match_known(known, prop, fail):
    for k in known:
        if k["property"] != prop or k["obligation"] != fail["obligation"]:
            continue
        if k["clause"] and k["clause"] != R.normtxt(fail.get("clause", "")):
            continue
        if k.get("input") is not None:
            # a finding recorded for a specific input covers exactly the failures whose every reported input carries these values
            items = (fail.get("input") or {}).get("failing_inputs") or []
            if not items or not all(all(str(it.get(kk)) == str(vv) for kk, vv in k["input"].items()) for it in items):
                continue
        return k
    return None


def units_for(prop, tier):
    us = []
    for u in R.load_units().values():
        if prop in u.get("property", []) and u.get("enabled", True):
            if u.get("tier", "quick") == "thorough" and tier != "thorough":
                continue
            us.append(u)
    return us


def run_unit(u, tier, workdir, prop):
    if u["backend"] == "verus":
        return R.decide_verus_unit(u, tier, os.path.join(workdir, u["name"]))
    if u["backend"] == "kani":
        return K.decide_kani_unit(u, tier, os.path.join(workdir, u["name"]), prop)
    if u["backend"] == "witness":
        # BOUNDED stand-in only: an executable postcondition searched over a stated grid on the real code (never counted as proved)
        from . import witness as W
        w = W.run_witness(u, int(os.environ.get("VERIF_SEED", "0") or 0))
        if w is None:
            raise R.Infra(f"{u['name']}: witness unit without witness.rs / witness_target")
        ok = not w["fails"]
        res = {"unit": u["name"], "backend": "witness", "cmd": w["cmd"], "wall": 0.0, "smt_ms": 0, "assumed": u.get("assumed", []), "dropped": [], "rule_uses": {},
               "obligations": [{"name": f"{u['name']}/witness-search", "backend": "cargo test (executable postcondition on the real code)", "ok": ok, "us": 0,
                                "bounded": u.get("witness_bound", f"{w['cases']} cases"), "kind": "bounded"}],
               "failures": [], "functions_under_contract": u.get("functions", []), "canary": {"cases": w["cases"]}, "assumption_scan": {}, "items": [u["witness_target"]],
               "explore": {"cases": w["cases"], "distinct": w.get("distinct"), "samples": w.get("samples", []), "rule": u.get("witness_rule", u.get("witness_bound", ""))}}
        for f0 in w["fails"][:60]:
            res["failures"].append({"obligation": f"{u['name']}/{f0.get('fn', '?')}", "clause": f0.get("clause", ""), "msg": "bounded search on the real code found a failing input",
                                    "raw": json.dumps(f0), "unit": u["name"], "fn": f0.get("fn"), "input": {"failing_inputs": [f0], "cases_tried": w["cases"]}})
        if len(w["fails"]) > 60:
            res["failures"].append({"obligation": f"{u['name']}/witness-search", "clause": "more failing inputs than the reporting cap", "msg": f"{len(w['fails'])} failing inputs",
                                    "raw": "", "unit": u["name"], "fn": None, "input": {"failing_inputs": w["fails"][60:65], "cases_tried": w["cases"]}})
        return res
    raise R.Infra(f"unknown backend {u['backend']}")


def decide(prop, tier, seed):
    t0 = time.time()
    R.ensure_vx()
    units = units_for(prop, tier)
    if not units:
        raise R.Infra(f"no unit serves {prop}")
    workdir = os.path.join(R.WORK, prop)
    os.makedirs(workdir, exist_ok=True)
    results = []
    verus_units = [u for u in units if u["backend"] in ("verus", "witness")]
    kani_units = [u for u in units if u["backend"] == "kani"]
    with cf.ThreadPoolExecutor(max_workers=6) as ex:
        futs = {ex.submit(run_unit, u, tier, workdir, prop): u for u in verus_units}
        kfut = ex.submit(K.decide_kani_units, kani_units, tier, workdir, prop) if kani_units else None
        # an undecided unit (tool limit, lost anchor, construct the verifier rejects and no failing input found) does not stop the
        # other units: a violation found elsewhere is still reported (exit 1); only "nothing violated, something undecided" is exit 2
        undecided = []
        for f in futs:
            try:
                results.append(f.result())
            except R.Infra as e:
                undecided.append(f"{futs[f]['name']}: {str(e)[:1500]}")
        if kfut:
            try:
                results.extend(kfut.result())
            except R.Infra as e:
                undecided.append("kani units: " + str(e)[:1500])
    known = load_known()
    violations, known_hits = [], []
    for r in results:
        for f in r["failures"]:
            k = match_known(known, prop, f)
            if k:
                known_hits.append((k, f))
            else:
                violations.append(f)
    # evidence
    proved, bounded = [], []
    seen_lemmas = set()
    for r in results:
        for o in r["obligations"]:
            if o.get("kind") == "ghost lemma":
                # shared ghost lemmas (spec/*.rs) are re-verified in every unit that includes them: count each once
                lname = o["name"].split("/", 1)[1]
                if lname in seen_lemmas and o["ok"]:
                    continue
                seen_lemmas.add(lname)
            (bounded if o.get("bounded") else proved).append(o)
    known_obl = {f["obligation"] for _, f in known_hits}
    counted = [o for o in proved if not (o["name"] in known_obl and not o["ok"])]
    trusted, assumed_contracts, not_decided = [], [], []
    for r in results:
        u = next(x for x in units if x["name"] == r["unit"])
        for p in u.get("prelude", []):
            trusted.append(f"prelude/{p} (trusted text; see header of that file)")
        trusted.extend(u.get("trusted", []))
        assumed_contracts.extend(f"{r['unit']}: {a}" for a in r.get("assumed", []))
        not_decided.extend(f"{r['unit']}: {a}" for a in u.get("not_decided", []))
    trusted = sorted(set(trusted))
    samples = [
        {"obligation": o["name"], "backend": o["backend"], "ok": o["ok"], "solver_ms": round(o.get("us", 0) / 1000, 1), **({"bounded": o["bounded"]} if o.get("bounded") else {})}
        for o in (proved + bounded)
    ]
    ev = {
        "property_id": prop,
        "tier": tier,
        "seed": seed,
        "level": "proof",
        "coverage": {
            "obligations": len(counted),
            "discharged": sum(1 for o in counted if o["ok"]),
            "checker_cmd": " ;; ".join(r["cmd"] for r in results),
            "trusted_base": trusted + assumed_contracts,
            "samples": samples[:400],
            "functions_under_contract": {r["unit"]: r.get("functions_under_contract", []) for r in results},
            "bounded_units": [{"obligation": o["name"], "bound": o["bounded"], "ok": o["ok"]} for o in bounded],
            "assumed_contracts": assumed_contracts,
            "rules_used": {r["unit"]: r.get("rule_uses", {}) for r in results},
            "dropped_by_extraction": {r["unit"]: r.get("dropped", []) for r in results},
            "extracted_items": {r["unit"]: r.get("items", []) for r in results},
            "assumption_scan": {r["unit"]: r.get("assumption_scan", {}) for r in results},
            "vacuity_canary": {r["unit"]: r.get("canary", {}) for r in results},
            "solver_ms": {r["unit"]: r.get("smt_ms", 0) for r in results},
            "backends": sorted({o["backend"] for o in proved + bounded}),
            "known_finding_obligations": sorted(known_obl),
            "not_decided": not_decided,
            "explanation": "contracts woven into functions extracted mechanically from /repo's working tree on this run; "
                           "each obligation is one function (Verus) or one harness (Kani) checked against its callees' contracts",
        },
        "assumptions": trusted + ["machine floating point treated as exact real arithmetic on finite values (DESIGN §3.4)"] + not_decided,
        "wall_s": round(time.time() - t0, 2),
        "violations": len(violations),
        "undecided_units": undecided,
    }
    if units and all(u["backend"] == "witness" for u in units):
        # a property served only by bounded executable checks: exploration-level evidence (nothing is counted as proved)
        ex = [r.get("explore", {}) for r in results]
        ev["level"] = "exploration"
        ev["coverage"].update({
            "evaluations": sum(e.get("cases") or 0 for e in ex),
            "distinct_nontrivial": sum(e.get("distinct") or 0 for e in ex),
            "rule": " | ".join(e.get("rule", "") for e in ex),
            "samples": [smp for e in ex for smp in e.get("samples", [])][:40] or samples[:5],
            "exhaustive": False,
        })
    os.makedirs(os.path.join(OUT, "evidence"), exist_ok=True)
    with open(os.path.join(OUT, "evidence", prop + ".json"), "w") as f:
        json.dump(ev, f, indent=1)
    for k, f in known_hits:
        print(f"KNOWN-FINDING: property={prop} {f['obligation']} {k['what']}")
    rc = 0
    if violations:
        rc = 1
        os.makedirs(os.path.join(OUT, "replay"), exist_ok=True)
        seen = set()
        n = 0
        for v in violations:
            key = (v["obligation"], v.get("clause", ""))
            if key in seen:
                continue
            seen.add(key)
            n += 1
            path = os.path.join(OUT, "replay", f"{prop}-{n}.json")
            rep = {
                "property": prop, "obligation": v["obligation"], "clause": v.get("clause", ""), "unit": v["unit"], "function": v.get("fn"),
                "verifier_message": v.get("msg", ""), "verifier_output": v.get("raw", ""), "input": v.get("input"),
                "replayed_on_real_code": bool(v.get("input")), "replay_cmd": f"./check {prop} --replay {path}", "tier": tier,
            }
            with open(path, "w") as f:
                json.dump(rep, f, indent=1)
            tail = "" if v.get("input") else " no-failing-input-found"
            print(f"VIOLATION property={prop} replay={path}{tail}")
            print(f"  obligation {v['obligation']}: {v.get('msg','')} | {v.get('clause','')[:200]}")
    print(f"{prop} [{tier}] obligations={ev['coverage']['obligations']} discharged={ev['coverage']['discharged']} bounded={len(bounded)} "
          f"known={len(known_hits)} violations={len(violations)} undecided_units={len(undecided)} wall={ev['wall_s']}s")
    if undecided and rc == 0:
        raise R.Infra("undecided (no violation found by the other units):\n" + "\n".join(undecided))
    for u_ in undecided:
        print("  UNDECIDED " + u_.split("\n")[0][:300])
    return rc


def replay(prop, path):
    rep = json.load(open(path))
    unit = R.load_units()[rep["unit"]]
    workdir = os.path.join(R.WORK, prop + "-replay")
    r = run_unit(unit, rep.get("tier", "quick"), workdir, prop)
    hit = [f for f in r["failures"] if f["obligation"] == rep["obligation"]]
    if hit:
        print(f"REPRODUCED obligation {rep['obligation']} still fails: {hit[0].get('msg','')} | {hit[0].get('clause','')[:200]}")
        if hit[0].get("input"):
            print("  failing input on the real code:", json.dumps(hit[0]["input"]))
        return 1
    print(f"NOT-REPRODUCED obligation {rep['obligation']} is discharged on the current tree")
    return 0


def main(argv):
    tier = os.environ.get("VERIF_TIER", "quick")
    seed = int(os.environ.get("VERIF_SEED", "0") or 0)
    prop = None
    rp = None
    unit = None
    i = 0
    while i < len(argv):
        a = argv[i]
        if a == "--tier":
            tier = argv[i + 1]; i += 1
        elif a == "--replay":
            rp = argv[i + 1]; i += 1
        elif a == "--unit":
            unit = argv[i + 1]; i += 1
        elif a == "--selftest":
            try:
                R.ensure_vx()
                os.makedirs(R.WORK, exist_ok=True)
                t = os.path.join(R.WORK, "warm.rs")
                open(t, "w").write("use vstd::prelude::*;\nverus! { proof fn warm() ensures 1 + 1 == 2int {} }\nfn main() {}\n")
                rc, out, err, wall = R.sh(["verus", t, "--edition", "2024"], cwd=R.WORK, timeout=300)
                print(f"selftest: vx built, verus rc={rc} ({wall:.1f}s)")
                return 0 if rc == 0 else 2
            except R.Infra as e:
                print("selftest failed:", e); return 2
        else:
            prop = a
        i += 1
    try:
        if unit:
            u = R.load_units()[unit]
            r = run_unit(u, tier, os.path.join(R.WORK, "unit"), (u.get("property") or ["C00"])[0])
            for o in r["obligations"]:
                print(("ok   " if o["ok"] else "FAIL ") + o["name"], o.get("us", 0) // 1000, "ms", o.get("bounded", ""))
            for f in r["failures"]:
                print("FAILURE", f["obligation"], f.get("msg"), "|", f.get("clause", "")[:200])
                if "-v" in argv:
                    print(f.get("raw", ""))
            print("canary:", r.get("canary"))
            return 1 if r["failures"] else 0
        if not prop:
            print(__doc__ or "usage: check <Cnn> [--tier quick|thorough] | --replay <file>")
            return 2
        if rp:
            return replay(prop, rp)
        return decide(prop, tier, seed)
    except R.Infra as e:
        print(f"ERROR (infrastructure, not a violation): {e}", file=sys.stderr)
        return 2
