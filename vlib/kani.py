"""Kani back end (DESIGN §3.5): harness modules are appended to a scratch copy of the
working tree (never to /repo), inside the module that owns the private items."""
import json
import os
import re
import shutil
import subprocess
import time

from . import runner as R

CACHE = os.path.join(R.ROOT, ".cache")


def scratch_copy(tag):
    dst = f"/var/tmp/rooc-verif.{os.getpid()}.{tag}"
    if os.path.exists(dst):
        shutil.rmtree(dst)
    src = os.path.join(R.REPO, "packages/rooc")
    shutil.copytree(src, dst, ignore=shutil.ignore_patterns("target", ".git", "node_modules"))
    return dst


def inject(scratch, unit):
    tf = unit["target_file"]
    rel = tf[len("packages/rooc/"):] if tf.startswith("packages/rooc/") else tf
    path = os.path.join(scratch, rel)
    if not os.path.exists(path):
        raise R.Infra(f"{unit['name']}: target file {tf} no longer exists (extraction lost)")
    harness = open(os.path.join(unit["dir"], unit.get("harness", "harness.rs"))).read()
    mod = "verif_kani_" + re.sub(r"\W", "_", unit["name"])
    with open(path, "a") as f:
        f.write(f"\n#[cfg(kani)]\nmod {mod} {{\n    #![allow(unused_imports, dead_code, unused_variables)]\n    use super::*;\n{harness}\n}}\n")
    return mod


def parse_kani(out):
    """-> {harness_name: {ok, decided, failed_checks, time, covers, raw}}; handles sequential and `-j` (Thread N:) output"""
    cur = {}       # thread -> harness
    blocks = {}    # harness -> text
    thread = None
    for line in out.split("\n"):
        m = re.match(r"^(?:Thread (\d+): )?Checking harness (\S+?)\.\.\.", line)
        if m:
            thread = m.group(1) or "0"
            name = m.group(2).split("::")[-1]
            cur[thread] = name
            blocks.setdefault(name, "")
            continue
        m = re.match(r"^Thread (\d+):\s*$", line)
        if m:
            thread = m.group(1)
            continue
        if line.startswith("Manual Harness Summary") or line.startswith("Complete - "):
            thread = None
            continue
        if thread is not None and thread in cur:
            blocks[cur[thread]] += line + "\n"
    res = {}
    for name, c in blocks.items():
        ok = "VERIFICATION:- SUCCESSFUL" in c
        failed = "VERIFICATION:- FAILED" in c
        fc = re.findall(r"(?m)^Failed Checks: (.*)$", c)
        tm = re.search(r"Verification Time: ([\d.]+)s", c)
        covers = re.search(r"\*\* (\d+) of (\d+) cover properties satisfied", c)
        res[name] = {
            "ok": ok and not failed, "decided": ok or failed, "failed_checks": fc, "time": float(tm.group(1)) if tm else 0.0,
            "covers": (int(covers.group(1)), int(covers.group(2))) if covers else None, "raw": c[-3000:],
        }
    return res


def decide_kani_units(units, tier, workdir, prop):
    os.makedirs(workdir, exist_ok=True)
    os.makedirs(CACHE, exist_ok=True)
    scratch = scratch_copy(prop)
    results = []
    try:
        mods = {u["name"]: inject(scratch, u) for u in units}
        env = dict(os.environ)
        env["CARGO_NET_OFFLINE"] = "true"
        env["CARGO_TARGET_DIR"] = os.path.join(CACHE, "kani-target")
        for u in units:
            hs = [h for h in u.get("harnesses", []) if h.get("tier", "quick") == "quick" or tier == "thorough"]
            if not hs:
                continue
            t0 = time.time()
            cmd = ["cargo", "kani", "-Z", "function-contracts", "-Z", "stubbing"] + u.get("kani_args", [])
            rel = u["target_file"].split("src/", 1)[1][:-3]
            modpath = "::".join(x for x in rel.split("/") if x not in ("mod", "lib", "main"))
            for h in hs:
                cmd += ["--harness", "::".join(x for x in [modpath, mods[u["name"]], h["name"]] if x)]
            cmd += ["--exact"]
            cmd += (["-j", str(min(8, len(hs))), "--output-format", "terse"] if len(hs) > 1 else [])
            timeout = sum(h.get("timeout", 300) for h in hs) + 240
            try:
                p = R.run_group(cmd, cwd=scratch, timeout=timeout, env=env)
                out, err = p.stdout, p.stderr
            except subprocess.TimeoutExpired:
                raise R.Infra(f"{u['name']}: cargo kani time-out after {timeout}s (undecided, not a violation)")
            with open(os.path.join(workdir, u["name"] + ".kani.log"), "w") as f:
                f.write(out + "\n==== stderr ====\n" + err)
            if "error: could not compile" in err or "error[E" in err:
                raise R.Infra(f"{u['name']}: harness does not compile against the current tree:\n{err[-3000:]}")
            parsed = parse_kani(out)
            obligations, failures = [], []
            for h in hs:
                pr = parsed.get(h["name"])
                if pr is None or not pr["decided"]:
                    raise R.Infra(f"{u['name']}: harness {h['name']} gave no verdict (out of memory / crash?):\n{(out + err)[-2000:]}")
                if pr["covers"] and pr["covers"][0] < pr["covers"][1]:
                    raise R.Infra(f"{u['name']}: harness {h['name']}: cover property unsatisfied -> vacuous assumptions")
                ign = u.get("ignore_checks", [])
                real_fc = [c for c in pr["failed_checks"] if not any(i in c for i in ign)]
                if not pr["ok"] and pr["failed_checks"] and not real_fc:
                    pr["ok"] = True  # only checks this unit declares out of scope (listed in its assumptions) failed
                pr["failed_checks"] = real_fc
                ob = {"name": f"{u['name']}/{h['name']}", "backend": "kani", "ok": pr["ok"], "us": int(pr["time"] * 1e6)}
                if h.get("bounded"):
                    ob["bounded"] = h["bounded"]
                obligations.append(ob)
                if not pr["ok"]:
                    # unwinding assertion failures mean "bound too small", not a violation
                    real = [c for c in pr["failed_checks"] if "unwinding assertion" not in c]
                    if not real:
                        raise R.Infra(f"{u['name']}: harness {h['name']}: only unwinding assertions failed (bound too small)")
                    failures.append({
                        "obligation": f"{u['name']}/{h['name']}", "clause": R.normtxt("; ".join(sorted(set(real)))), "msg": "Kani: " + "; ".join(sorted(set(real)))[:300],
                        "raw": pr["raw"], "unit": u["name"], "fn": h["name"], "input": None,
                    })
            # concrete playback for failing harnesses
            for f in failures:
                f["input"] = playback(scratch, u, f["fn"], env, workdir)
            results.append({
                "unit": u["name"], "backend": "kani", "obligations": obligations, "failures": failures, "cmd": "(in scratch copy) " + " ".join(cmd),
                "wall": time.time() - t0, "smt_ms": int(sum(parsed[h["name"]]["time"] for h in hs) * 1000), "assumed": u.get("assumed", []),
                "dropped": [], "rule_uses": {}, "functions_under_contract": u.get("functions", []),
                "canary": {"cover_checks": sum(1 for h in hs if parsed[h["name"]]["covers"])},
                "assumption_scan": {"kani::assume": len(re.findall(r"kani::assume", open(os.path.join(u["dir"], u.get("harness", "harness.rs"))).read()))},
                "items": [u["target_file"] + ": " + fn for fn in u.get("functions", [])],
            })
    finally:
        shutil.rmtree(scratch, ignore_errors=True)
    return results


def decide_kani_unit(u, tier, workdir, prop):
    return decide_kani_units([u], tier, workdir, prop)[0]


def playback(scratch, u, harness, env, workdir):
    """ask Kani for the concrete values of the counterexample (printed as a unit test)"""
    cmd = ["cargo", "kani", "-Z", "function-contracts", "-Z", "stubbing", "-Z", "concrete-playback", "--concrete-playback=print", "--harness", harness] + u.get("kani_args", [])
    try:
        p = R.run_group(cmd, cwd=scratch, timeout=600, env=env)
    except subprocess.TimeoutExpired:
        return None
    m = re.search(r"```\n(.*?)```", p.stdout, re.S)
    if not m:
        return None
    test = m.group(1)
    vals = re.findall(r"(?m)^\s*//\s*(.+)$\n\s*vec!\[", test)
    return {"kani_concrete_values_in_order_of_kani_any": vals, "playback_test": test[:4000]}
