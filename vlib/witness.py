"""Counterexample search and replay on the REAL code (DESIGN §3.6).

A unit may carry `witness.rs`: a `#[cfg(test)]` module body with an executable form of the unit's postcondition and a
deterministic search over a grid of exactly representable inputs.  It is appended to a scratch copy of the working tree
(never to /repo), inside the module that owns the function, and run with `cargo test`.  Every failing input is printed as a
line `WITNESS-FAIL {json}`.  The search is used only AFTER the verifier failed or could not decide an obligation:
  verifier failed  + input found  -> VIOLATION with the replayed input
  verifier failed  + none found   -> VIOLATION ... no-failing-input-found
  verifier undecided (rlimit / time-out) + input found -> VIOLATION with the replayed input
  verifier undecided + none found -> exit 2 (undecided)
"""
import json
import os
import re
import shutil
import subprocess

from . import runner as R

CACHE = os.path.join(R.ROOT, ".cache")


def run_witness(unit, seed=0, only=None):
    """returns list of failing inputs (dicts); raises Infra when the witness cannot be built/run"""
    wpath = os.path.join(unit["dir"], "witness.rs")
    if unit.get("witness_from"):   # several units over the same function share one executable postcondition
        wpath = os.path.join(os.path.dirname(unit["dir"]), unit["witness_from"], "witness.rs")
    if not os.path.exists(wpath) or "witness_target" not in unit:
        return None
    os.makedirs(CACHE, exist_ok=True)
    # One witness run at a time, always in the SAME scratch path: the cargo target directory is shared between runs (build time),
    # and cargo identifies the package by its path; different paths with the same package name confuse its freshness check.
    import fcntl, hashlib
    lk = open(os.path.join(CACHE, "witness.lock"), "w")
    fcntl.flock(lk, fcntl.LOCK_EX)
    dst = "/var/tmp/rooc-witness." + hashlib.sha1(R.ROOT.encode()).hexdigest()[:10]
    if os.path.exists(dst):
        shutil.rmtree(dst)
    shutil.copytree(os.path.join(R.REPO, "packages/rooc"), dst, ignore=shutil.ignore_patterns("target", ".git", "node_modules"))
    try:
        tf = unit["witness_target"]
        rel = tf[len("packages/rooc/"):] if tf.startswith("packages/rooc/") else tf
        path = os.path.join(dst, rel)
        if not os.path.exists(path):
            raise R.Infra(f"{unit['name']}: witness target {tf} no longer exists")
        mod = "verif_witness_" + re.sub(r"\W", "_", unit["name"])
        n_orig_lines = open(path).read().count("\n")
        with open(path, "a") as f:
            f.write(f"\n#[cfg(test)]\nmod {mod} {{\n    #![allow(unused_imports, dead_code, unused_variables)]\n    use super::*;\n{open(wpath).read()}\n}}\n")
        env = dict(os.environ)
        env["CARGO_NET_OFFLINE"] = "true"
        env["CARGO_TARGET_DIR"] = os.path.join(CACHE, "witness-target")
        env["VERIF_SEED"] = str(seed)
        cmd = ["cargo", "test", "--offline", "--lib", mod, "--", "--nocapture", "--test-threads", "1"]
        try:
            p = R.run_group(cmd, cwd=dst, timeout=900, env=env)   # own session: a time-out kills the test binary too
        except subprocess.TimeoutExpired:
            raise R.Infra(f"{unit['name']}: witness search timed out")
        out = p.stdout + "\n" + p.stderr
        # a panic of the REAL code during the search is a failing input (the search calls public entry points on well-formed inputs);
        # a panic inside the appended witness module itself is a harness problem
        panic = re.search(r"panicked at ([^\s:]+):(\d+):\d+:\n([^\n]*)", out)
        stderr_wo_test_failed = re.sub(r"(?m)^error: test failed.*$", "", p.stderr)
        if "error: could not compile" in out or re.search(r"(?m)^error(\[E\d+\])?:", stderr_wo_test_failed):
            raise R.Infra(f"{unit['name']}: witness module does not compile against the current tree:\n{p.stderr[-2500:]}")
        fails = []
        if panic:
            in_target = rel.endswith(panic.group(1).lstrip("./")) or panic.group(1).lstrip("./").endswith(rel)
            if in_target and int(panic.group(2)) > n_orig_lines:
                raise R.Infra(f"{unit['name']}: the witness module itself panicked at line {panic.group(2)}: {panic.group(3)}")
            fails.append({"fn": unit.get("witness_fn") or os.path.basename(tf), "clause": "the real code returns (no panic) on the inputs of the bounded search",
                          "panicked_at": f"{panic.group(1)}:{panic.group(2)}", "message": panic.group(3)})
        for line in out.split("\n"):
            # (the first line printed by a test shares its line with cargo's "test <name> ... " prefix)
            k = line.find("WITNESS-FAIL ")
            if k >= 0:
                try:
                    fails.append(json.loads(line[k + len("WITNESS-FAIL "):]))
                except Exception:
                    fails.append({"raw": line[k:]})
        m = re.search(r"WITNESS-DONE cases=(\d+)(?: distinct=(\d+))?", out)
        cases = int(m.group(1)) if m else 0
        distinct = int(m.group(2)) if m and m.group(2) else None
        samples = []
        for line in out.split("\n"):
            k = line.find("WITNESS-SAMPLE ")
            if k >= 0:
                try:
                    samples.append(json.loads(line[k + len("WITNESS-SAMPLE "):]))
                except Exception:
                    samples.append({"raw": line[k + 15:][:400]})
        if panic and cases == 0:
            cases = 1
        if cases == 0 and not fails:
            raise R.Infra(f"{unit['name']}: witness search ran no case:\n{out[-1500:]}")
        return {"fails": fails, "cases": cases, "distinct": distinct, "samples": samples, "cmd": "(in scratch copy) " + " ".join(cmd)}
    finally:
        shutil.rmtree(dst, ignore_errors=True)
        fcntl.flock(lk, fcntl.LOCK_UN)
        lk.close()
