#!/usr/bin/env python3
"""Runner for the contract-based checks (DESIGN §3, §7).

./check <Cnn> [--tier quick|thorough]      decide one property
./check <Cnn> --replay <file>              re-run the obligation named in a replay file
./check --unit <Uxx.name> [--keep]         developer aid: run one unit, print details

Exit codes: 0 property held on everything explored (KNOWN-FINDING lines allowed),
            1 violation (a line `VIOLATION property=<id> replay=<path>` is printed),
            2 infrastructure problem (extraction lost, tool limit, time-out): never an alarm.
"""
import concurrent.futures as cf
import hashlib
import json
import os
import re
import shutil
import subprocess
import sys
import time
import tomllib

ROOT = os.path.dirname(os.path.dirname(os.path.abspath(__file__)))
REPO = os.environ.get("VERIF_REPO", "/repo")
VX = os.path.join(ROOT, "tools/vx/target/release/vx")
WORK = os.environ.get("VERIF_WORK", os.path.join(ROOT, "work"))
HEADER = "use vstd::prelude::*;\nuse vstd::std_specs::ops::*;\nuse std::collections::VecDeque;\nverus! {\nglobal size_of usize == 8;  // the checks run on (and claim) a 64-bit target\n"
FOOTER = "\n} // verus!\nfn main() {}\n"


class Infra(Exception):
    """tool / extraction problem: exit 2, never a VIOLATION"""


class GroupResult:
    def __init__(self, returncode, stdout, stderr):
        self.returncode, self.stdout, self.stderr = returncode, stdout, stderr


def run_group(cmd, cwd=None, timeout=None, env=None):
    """subprocess.run(capture_output, text) in its own session: on a time-out the WHOLE process group is killed
    (cargo test / cargo kani / verus leave their test binary, cbmc or z3 child spinning otherwise), then TimeoutExpired is raised"""
    import signal
    p = subprocess.Popen(cmd, cwd=cwd, stdout=subprocess.PIPE, stderr=subprocess.PIPE, text=True, env=env, start_new_session=True)
    try:
        so, se = p.communicate(timeout=timeout)
    except subprocess.TimeoutExpired:
        try:
            os.killpg(p.pid, signal.SIGKILL)
        except ProcessLookupError:
            pass
        so, se = p.communicate()
        raise subprocess.TimeoutExpired(cmd, timeout, output=so, stderr=se)
    except BaseException:
        try:
            os.killpg(p.pid, signal.SIGKILL)
        except ProcessLookupError:
            pass
        raise
    return GroupResult(p.returncode, so, se)


def sh(cmd, cwd=None, timeout=None, env=None):
    t0 = time.time()
    try:
        p = run_group(cmd, cwd=cwd, timeout=timeout, env=env)
        return p.returncode, p.stdout, p.stderr, time.time() - t0
    except subprocess.TimeoutExpired as e:
        return 124, (e.stdout or b"").decode() if isinstance(e.stdout, bytes) else (e.stdout or ""), "TIMEOUT", time.time() - t0


def load_units():
    units = {}
    udir = os.path.join(ROOT, "units")
    for d in sorted(os.listdir(udir)):
        p = os.path.join(udir, d, "unit.toml")
        if os.path.exists(p):
            with open(p, "rb") as f:
                u = tomllib.load(f)
            u["name"] = d
            u["dir"] = os.path.join(udir, d)
            units[d] = u
    return units


def ensure_vx():
    if not os.path.exists(VX):
        rc, out, err, _ = sh(["cargo", "build", "--release", "--offline"], cwd=os.path.join(ROOT, "tools/vx"))
        if rc != 0:
            raise Infra("cannot build tools/vx: " + err[-2000:])


def normtxt(s):
    return re.sub(r"\s+", " ", s).strip()


# ------------------------------------------------------------------ Verus units
def assemble(unit, workdir, canary=False, canary_loops=False):
    os.makedirs(workdir, exist_ok=True)
    stem = unit["name"].replace(".", "_") + ("_canary" if canary else "")
    woven = os.path.join(workdir, stem + ".woven.rs")
    report = os.path.join(workdir, stem + ".report.json")
    opts = dict(unit.get("opts", {}))
    opts["canary_loops"] = canary_loops
    contract_path = os.path.join(unit["dir"], "contract.rs")
    imports = unit.get("import_assumed", [])
    if imports:
        txt = open(contract_path).read()
        all_units = load_units()
        for imp in imports:
            other = all_units.get(imp["unit"])
            if other is None:
                raise Infra(f"{unit['name']}: import_assumed names unknown unit {imp['unit']}")
            otxt = open(os.path.join(other["dir"], "contract.rs")).read()
            m = re.search(r"(?m)^@fn " + re.escape(imp["fn"]) + r"((?: -> \w+)?)[ \t]*\n(.*?)(?=^@fn |^@raw|\Z)", otxt, re.S)
            if not m:
                raise Infra(f"{unit['name']}: contract of {imp['fn']} not found in {imp['unit']}")
            tag = "" if imp.get("same_obligation") else " @assumed"
            txt = f"//@ contract of {imp['fn']} imported verbatim from unit {imp['unit']}\n@fn {imp['fn']}{tag}{m.group(1)}\n{m.group(2)}" + txt
        contract_path = os.path.join(workdir, stem + ".contract.rs")
        with open(contract_path, "w") as f:
            f.write(txt)
    # tiling guard: the statement slices of the listed units, in order, plus the explicitly listed other statements must cover EVERY
    # top-level statement of the function (a statement slipped in between two slices would otherwise be seen by no contract)
    tiling = []
    for t in unit.get("tiling", []):
        all_units = load_units()
        parts = []
        for un in t["units"]:
            un, _, only = un.partition("#")     # "U02.obj#objective_parts": one named slice of a unit that has several
            ou = all_units.get(un)
            if ou is None:
                raise Infra(f"{unit['name']}: tiling names unknown unit {un}")
            for sl in ou.get("slices", []):
                if sl["fn"] == t["fn"] and sl["path"] == t["path"] and not sl.get("within") and (not only or sl["name"] == only):
                    parts.append({"from": sl["from"], "to": sl["to"], "unit": un})
        tiling.append({"path": t["path"], "fn": t["fn"], "parts": parts, "other": t.get("other", [])})
    spec = {
        "repo": REPO,
        "sources": unit.get("sources", []),
        "slices": unit.get("slices", []),
        "tiling": tiling,
        "rules": unit.get("rules", []),
        "contract": contract_path,
        "broadcast": unit.get("broadcast", []),
        "canary": canary,
        "opts": opts,
        "out": woven,
        "report": report,
    }
    specp = os.path.join(workdir, stem + ".spec.json")
    with open(specp, "w") as f:
        json.dump(spec, f, indent=1)
    rc, out, err, _ = sh([VX, specp])
    if rc != 0:
        raise Infra(f"{unit['name']}: vx failed (rc={rc}): {err.strip()[-1500:]}")
    parts = [HEADER]
    for p in unit.get("prelude", []):
        parts.append(open(os.path.join(ROOT, "prelude", p)).read())
    for t in unit.get("opaque_types", []):
        parts.append(f"#[verifier::external_body] pub struct {t} {{ _p: () }}  // opaque: content irrelevant to this unit (assumption)\n")
    pre_lines = sum(s.count("\n") for s in parts)
    parts.append(open(woven).read())
    for p in unit.get("spec", []):
        parts.append(open(os.path.join(ROOT, "spec", p)).read())
    parts.append(FOOTER)
    final = os.path.join(workdir, stem + ".rs")
    with open(final, "w") as f:
        f.write("".join(parts))
    rep = json.load(open(report))
    # say where each imported contract is discharged (or that it is not)
    if imports:
        all_units = load_units()
        fixed = []
        for a in rep["assumed"]:
            for imp in imports:
                if a.startswith(imp["fn"] + ":"):
                    other = all_units[imp["unit"]]
                    if other.get("enabled", True):
                        a = f"{imp['fn']}: contract imported verbatim from unit {imp['unit']}, where it is discharged ({other['backend']})"
                    else:
                        a = f"{imp['fn']}: contract imported from unit {imp['unit']} which is NOT proved yet -> ASSUMED"
            fixed.append(a)
        rep["assumed"] = fixed
    for l in rep["lines"]:
        l["start"] += pre_lines
        l["end"] += pre_lines
    return final, rep


def parse_verus_errors(stderr, final, rep):
    """-> list of {fn, line, msg, clause}"""
    src = open(final).read().split("\n")
    errs = []
    blocks = re.split(r"(?m)^(?=error)", stderr)
    for b in blocks:
        if not b.startswith("error"):
            continue
        head = b.split("\n", 1)[0]
        if head.startswith("error: aborting"):
            continue
        m = re.search(r"-->\s+\S+?:(\d+):(\d+)", b)
        if not m:
            errs.append({"fn": None, "line": None, "msg": head, "clause": "", "raw": b[:1500]})
            continue
        # all locations in the block; the function is the one containing any of them
        locs = [int(x) for x in re.findall(r"(?m)^\s*(\d+)\s*\|", b)] + [int(m.group(1))]
        line = int(m.group(1))
        fn = None
        for l in [line] + locs:
            for e in rep["lines"]:
                if e["start"] <= l <= e["end"]:
                    fn = e["fn"]
                    break
            if fn:
                break
        clause = normtxt(src[line - 1]) if 0 < line <= len(src) else ""
        errs.append({"fn": fn, "line": line, "msg": head[len("error: "):] if head.startswith("error: ") else head, "clause": clause, "raw": b[:2500]})
    return errs


def run_verus(unit, workdir, canary=False, timeout=420):
    final, rep = assemble(unit, workdir, canary=canary, canary_loops=canary)
    stem = os.path.basename(final)[:-3]
    args = ["verus", final, "--edition", "2024", "--output-json", "--time", "--triggers-mode", "silent", "--multiple-errors", "8"] + unit.get("verus_args", [])
    rc, out, err, wall = sh(args, cwd=workdir, timeout=timeout)
    for junk in (stem,):
        jp = os.path.join(workdir, junk)
        if os.path.isfile(jp):
            os.remove(jp)
    if rc == 124:
        raise Infra(f"{unit['name']}: verus time-out after {timeout}s")
    try:
        j = json.loads(out)
    except Exception:
        raise Infra(f"{unit['name']}: verus produced no JSON (rc={rc}): {err[-1500:]}")
    vr = j.get("verification-results", {})
    if vr.get("encountered-vir-error") or ("times-ms" not in j) or (not vr.get("success") and vr.get("errors", 0) == 0 and vr.get("verified", 0) == 0):
        raise Infra(f"{unit['name']}: verus rejected the extracted text (unsupported construct / type error):\n{err[-3000:]}")
    funcs = []
    for m in j["times-ms"]["smt"].get("smt-run-module-times", []):
        for f in m.get("function-breakdown", []):
            name = f["function"].split("::", 1)[1] if "::" in f["function"] else f["function"]
            funcs.append({"fn": name, "success": f["success"], "us": f["time-micros"], "rlimit": f["rlimit"], "mode": f.get("mode:", "")})
    errors = parse_verus_errors(err, final, rep) if not vr.get("success") else []
    # rlimit / timeout detection
    resource = bool(re.search(r"Resource limit \(rlimit\) exceeded|Verus Internal Error|thread '.*' panicked", err))
    return {
        "unit": unit["name"], "file": final, "cmd": " ".join(args), "rc": rc, "wall": wall, "verified": vr.get("verified", 0),
        "n_errors": vr.get("errors", 0), "functions": funcs, "errors": errors, "report": rep, "stderr": err, "resource": resource,
        "smt_ms": j["times-ms"]["smt"].get("smt-run", 0), "verus_version": j.get("verus", {}).get("version", ""),
    }


class Undecided(Infra):
    """solver time-out / resource limit: undecided, unless a witness search finds a failing input on the real code"""


def _is_known_input(unit, fail):
    """does a `known:` line of known-findings.txt with an input={...} describe this failing input of the witness search used by `unit`?"""
    path = os.path.join(ROOT, "known-findings.txt")
    if not os.path.exists(path):
        return False
    owners = {unit["name"], unit.get("witness_from", unit["name"])}
    for line in open(path):
        line = line.strip()
        if not line.startswith("known:"):
            continue
        body = line[len("known:"):].partition(" :: ")[0]
        mo = re.search(r"obligation=(\S+?)/", body)
        mi = re.search(r"\s+input=(\{.*\})\s*$", body)
        if not mo or not mi or mo.group(1) not in owners:
            continue
        try:
            inp = json.loads(mi.group(1))
        except Exception:
            continue
        if all(str(fail.get(k)) == str(v) for k, v in inp.items()):
            return True
    return False


def decide_verus_unit(unit, tier, workdir):
    """returns dict with obligations (list), failures (list), infra problems raise Infra"""
    from . import witness as W
    seed = int(os.environ.get("VERIF_SEED", "0") or 0)
    try:
        return _decide_verus_unit(unit, tier, workdir, W, seed)
    except Undecided as u:
        w = W.run_witness(unit, seed)
        if w is None or not w["fails"]:
            raise
        # inputs already recorded as known findings of the unit that owns the search are not news: an undecided unit must not turn them into an alarm
        fails = [f for f in w["fails"] if not _is_known_input(unit, f)]
        if not fails:
            raise
        fn = fails[0].get("fn", "?")
        return {
            "unit": unit["name"], "backend": "verus", "cmd": w["cmd"], "wall": 0.0, "smt_ms": 0, "assumed": [], "dropped": [], "rule_uses": {},
            "obligations": [{"name": f"{unit['name']}/{fn}", "backend": "verus+witness", "ok": False, "us": 0, "kind": "contract"}],
            "failures": [{"obligation": f"{unit['name']}/{fn}", "clause": fails[0].get("clause", ""), "unit": unit["name"], "fn": fn,
                          "msg": "verifier undecided (" + str(u)[:120] + "); counterexample search on the real code found a failing input",
                          "raw": str(u)[:2000], "input": {"failing_inputs": fails[:5], "cases_tried": w["cases"]}}],
            "functions_under_contract": [], "canary": {}, "assumption_scan": {}, "items": [],
        }


def find_provider(fn_name):
    """a unit that PROVES a contract of the free function fn_name (used when changed code starts calling a helper the unit did not list)"""
    for name, other in sorted(load_units().items()):
        if other.get("backend") != "verus" or other.get("enabled") is False:
            continue
        try:
            ctxt = open(os.path.join(other["dir"], "contract.rs")).read()
        except OSError:
            continue
        if not re.search(r"(?m)^@fn " + re.escape(fn_name) + r"(?: -> \w+)?[ \t]*$", ctxt):
            continue
        for src in other.get("sources", []):
            if ("fn " + fn_name) in src.get("items", []):
                return other, src["path"]
    return None


def _decide_verus_unit(unit, tier, workdir, W, seed):
    main = None
    for _attempt in range(4):
        try:
            main = run_verus(unit, workdir)
            break
        except Infra as e:
            # the code now calls a helper that is not part of the unit: pull it in WITH the contract proved for it elsewhere (modular
            # reasoning: the caller is checked against the callee's contract).  A helper without a proved contract stays undecided.
            m = re.search(r"cannot find function `(\w+)` in this scope", str(e)) if "verus rejected the extracted text" in str(e) else None
            prov = find_provider(m.group(1)) if m else None
            if prov and not any(i.get("fn") == m.group(1) for i in unit.get("import_assumed", [])):
                other, path = prov
                unit = dict(unit)
                unit["sources"] = list(unit.get("sources", [])) + [{"path": path, "items": ["fn " + m.group(1)]}]
                unit["import_assumed"] = list(unit.get("import_assumed", [])) + [{"unit": other["name"], "fn": m.group(1)}]
                unit["spec"] = list(unit.get("spec", [])) + [x for x in other.get("spec", []) if x not in unit.get("spec", [])]
                unit["prelude"] = list(unit.get("prelude", [])) + [x for x in other.get("prelude", []) if x not in unit.get("prelude", [])]
                unit["rules"] = list(unit.get("rules", [])) + [x for x in other.get("rules", []) if x not in unit.get("rules", [])]
                unit["auto_imported"] = list(unit.get("auto_imported", [])) + [f"{m.group(1)} (contract from {other['name']})"]
                continue
            # a proof HINT lost its anchor statement (the code was edited around it): try once more without such hints.  If the verifier
            # then discharges everything, the unit is decided (hints carry no obligation of their own); if not, it stays undecided.
            if "EXTRACTION-LOST" in str(e) and "statement selector" in str(e) and not (unit.get("opts") or {}).get("lenient_hints"):
                unit = dict(unit)
                unit["opts"] = dict(unit.get("opts") or {}, lenient_hints=True)
                unit["hints_dropped"] = str(e)[-200:]
                continue
            # time-out, lost anchor (the code was restructured) or a construct the verifier rejects: undecided.
            # If the unit has an executable postcondition, the search on the real code may still decide it.
            if "time-out" in str(e) or "EXTRACTION-LOST" in str(e) or "verus rejected the extracted text" in str(e):
                raise Undecided(str(e))
            raise
    if main is None:
        raise Undecided(f"{unit['name']}: helper functions could not be resolved")
    if unit.get("hints_dropped") and main["errors"]:
        raise Undecided(f"{unit['name']}: a proof hint lost its anchor ({unit['hints_dropped']}) and the proof does not go through without it (undecided, not a violation)")
    rep = main["report"]
    rn = (unit.get("opts") or {}).get("rename_fns") or {}   # R33: extracted functions renamed to avoid a clash with a ghost name
    for f in rep["functions"]:
        f["fn"] = rn.get(f["fn"], f["fn"])
    contracted = [f["fn"] for f in rep["functions"] if f["contracted"]]
    fnres = {f["fn"]: f for f in main["functions"]}
    obligations = []
    failures = []
    if main["resource"] and main["errors"]:
        # a resource-limit error is "undecided", not a violation
        res_fns = {e["fn"] for e in main["errors"] if "rlimit" in e["raw"] or "Resource limit" in e["raw"]}
        if res_fns:
            raise Undecided(f"{unit['name']}: solver resource limit in {sorted(str(x) for x in res_fns)} (undecided, not a violation)")
    extracted = {f["fn"] for f in rep["functions"] if not f["assumed"]}
    for f in main["functions"]:
        # count only code extracted from /repo and the unit's own ghost lemmas; prelude helpers and derived clones are not obligations
        if f["fn"] in extracted:
            kind = "contract" if f["fn"] in contracted else "safety-only (no contract)"
        elif f["mode"] == "proof":
            kind = "ghost lemma"
        else:
            continue
        ob = {"name": f"{unit['name']}/{f['fn']}", "backend": "verus", "ok": f["success"], "us": f["us"], "rlimit": f["rlimit"], "mode": f["mode"], "kind": kind}
        obligations.append(ob)
    for c in contracted:
        if c not in fnres:
            # functions with trivially true obligations may not get an SMT query; count them as discharged by the type checker
            obligations.append({"name": f"{unit['name']}/{c}", "backend": "verus", "ok": True, "us": 0, "rlimit": 0, "mode": "exec (no SMT query needed)"})
    if len(contracted) == 0 and not unit.get("allow_no_contracts"):
        raise Infra(f"{unit['name']}: no function under contract (empty extraction?)")
    exp = unit.get("obligations")
    if exp is not None and exp != len(contracted):
        raise Infra(f"{unit['name']}: {len(contracted)} functions under contract, unit.toml expects {exp}")
    for e in main["errors"]:
        if e["fn"] is None and e["line"] is None:
            raise Infra(f"{unit['name']}: verus error outside any function: {e['msg']}\n{e['raw']}")
        failures.append({"obligation": f"{unit['name']}/{e['fn'] or '?'}", "clause": e["clause"], "msg": e["msg"], "raw": e["raw"], "unit": unit["name"], "fn": e["fn"]})
    failed_fns = [f["fn"] for f in main["functions"] if not f["success"]]
    for ff in failed_fns:
        if not any(x["fn"] == ff or (x["fn"] and ff.endswith(x["fn"])) for x in failures):
            failures.append({"obligation": f"{unit['name']}/{ff}", "clause": "", "msg": "function failed verification", "raw": main["stderr"][-2500:], "unit": unit["name"], "fn": ff})
    # a failed obligation: look for a failing input on the real code (replay)
    if failures:
        w = W.run_witness(unit, seed)
        if w is not None and w["fails"]:
            for f in failures:
                mine = [x for x in w["fails"] if x.get("fn") in (None, f["fn"])] or w["fails"]
                f["input"] = {"failing_inputs": mine[:5], "cases_tried": w["cases"]}
    # bounded clauses that only the executable search checks (labelled bounded, never counted as proved)
    wa = unit.get("witness_always")
    if not failures and wa and (wa == "quick" or tier == "thorough"):
        w = W.run_witness(unit, seed)
        if w is not None:
            ok = not w["fails"]
            obligations.append({"name": f"{unit['name']}/witness-search", "backend": "cargo test (executable postcondition on the real code)", "ok": ok, "us": 0,
                                "bounded": unit.get("witness_bound", f"{w['cases']} grid cases"), "kind": "bounded"})
            if not ok:
                # one failure per failing input (up to a cap), so that a recorded known finding is matched input by input and
                # any OTHER failing input is still reported
                for f0 in w["fails"][:60]:
                    failures.append({"obligation": f"{unit['name']}/{f0.get('fn', '?')}", "clause": f0.get("clause", ""), "msg": "bounded search on the real code found a failing input",
                                     "raw": json.dumps(f0), "unit": unit["name"], "fn": f0.get("fn"), "input": {"failing_inputs": [f0], "cases_tried": w["cases"]}})
                if len(w["fails"]) > 60:
                    failures.append({"obligation": f"{unit['name']}/witness-search", "clause": "more failing inputs than the reporting cap", "msg": f"{len(w['fails'])} failing inputs",
                                     "raw": "", "unit": unit["name"], "fn": None, "input": {"failing_inputs": w["fails"][60:65], "cases_tried": w["cases"]}})
    # vacuity canary
    can = run_verus(unit, workdir, canary=True)
    canres = {f["fn"]: f for f in can["functions"]}
    vac = [c for c in contracted if c in canres and canres[c]["success"]]
    missing = [c for c in contracted if c not in canres]
    if vac or missing:
        raise Infra(f"{unit['name']}: vacuity canary PASSED for {vac + missing}: contradictory preconditions or axioms")
    # every canary line must be reported as failing (loops included)
    can_src = open(can["file"]).read().split("\n")
    can_lines = {i + 1: l for i, l in enumerate(can_src) if "// vx:canary" in l}
    hit = {e["line"] for e in can["errors"]}
    unhit = [normtxt(l.split("// vx:canary")[1]) for i, l in can_lines.items() if i not in hit]
    return {
        "unit": unit["name"], "backend": "verus", "obligations": obligations, "failures": failures, "cmd": main["cmd"], "wall": main["wall"] + can["wall"],
        "smt_ms": main["smt_ms"], "assumed": rep["assumed"], "dropped": rep["dropped"], "rule_uses": rep["rule_uses"], "functions_under_contract": contracted,
        "canary": {"asserted": len(can_lines), "failed_as_required": len(can_lines) - len(unhit), "not_reported": unhit[:20]},
        "assumption_scan": scan_assumptions(main["file"]), "items": rep["items"], "verus_version": main["verus_version"],
    }


def scan_assumptions(path):
    txt = open(path).read()
    # strip comments
    txt = re.sub(r"//[^\n]*", "", txt)
    return {
        "external_body": len(re.findall(r"external_body", txt)),
        "axiom": len(re.findall(r"\baxiom\s+fn\b", txt)),
        "assume": len(re.findall(r"\bassume\s*\(", txt)),
        "admit": len(re.findall(r"\badmit\s*\(", txt)),
        "assume_specification": len(re.findall(r"assume_specification", txt)),
        "uninterp": len(re.findall(r"\buninterp\b", txt)),
    }
